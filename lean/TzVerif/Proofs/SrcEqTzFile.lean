/-
The translated source (Generated/Src.lean, regenerated from /repo/src on every run by tools/rs2lean.py) equals the
hand-written model: src/parse/tz_file.rs — the TZif v1/v2/v3 decoder (C08; also C10 and the file branch of C20).

The source has a `Version` enum, `usize` counts and a const generic `TIME_SIZE`; the model stores the version as
1/2/3, the counts as `Nat` and passes the time size as an argument: `hdrOf` / `dbOf` convert.
`parse_footer` is translated too (SrcEqFooter.lean; its `str` methods are modelled in SrcPreludeStr.lean).
Given their model meaning (trusted, DESIGN §13): `LocalTimeType::new`, `uN/iN::from_be_bytes`,
`chunks_exact`, `first_chunk`, `split_first_chunk`, `<[u8; N]>::try_from` and `unwrap` on exact chunks,
`chain(iter::repeat(0))` / `zip` / `take`, `Option::and_then`, `transpose`. `TimeZone::new` is given the meaning of the
translated `TimeZoneRef::new` (the owned constructor builds the borrowed view and checks it: C13).
-/
import TzVerif.SrcBase
import TzVerif.Model.TzFile
import TzVerif.Proofs.SrcEqTzString
import TzVerif.Proofs.SrcEqZone
import TzVerif.Proofs.SrcEqTzFileAux
import TzVerif.Proofs.SrcEqFooter

set_option linter.unusedSimpArgs false

namespace TzVerif.Proofs.SrcEq
open TzVerif TzVerif.Model TzVerif.Gen

def verOf : Src.Version → Nat
  | .v1 => 1 | .v2 => 2 | .v3 => 3

def hdrOf (h : Src.Header) : Header :=
  { version := verOf h.version, utLocalCount := h.utLocalCount.toNat, stdWallCount := h.stdWallCount.toNat,
    leapCount := h.leapCount.toNat, transitionCount := h.transitionCount.toNat, typeCount := h.typeCount.toNat,
    charCount := h.charCount.toNat }

def dbOf (d : Src.DataBlocks) : DataBlocks :=
  { transitionTimes := d.transitionTimes, transitionTypes := d.transitionTypes, localTimeTypes := d.localTimeTypes,
    designations := d.timeZoneDesignations, leapSeconds := d.leapSeconds, stdWalls := d.stdWalls, utLocals := d.utLocals }

/-- the counts of a header are `u32` values converted to `usize`: non-negative -/
def HeaderNonneg (h : Src.Header) : Prop :=
  0 ≤ h.utLocalCount ∧ 0 ≤ h.stdWallCount ∧ 0 ≤ h.leapCount ∧ 0 ≤ h.transitionCount ∧ 0 ≤ h.typeCount ∧ 0 ≤ h.charCount

theorem be_unsigned_eq (b : Bytes) : Src.be_unsigned b = (be32 b : Int) := rfl

theorem be_signed_eq (b : Bytes) : Src.be_signed b = beSigned b := rfl

theorem header_test_eq (a b c d : Nat) :
    (!((((decide ((c : Int) ≠ 0)) && (decide ((d : Int) ≠ 0))) && ((decide ((a : Int) = 0)) || (decide ((a : Int) = c)))) && ((decide ((b : Int) = 0)) || (decide ((b : Int) = c)))))
    = (!(c != 0 && d != 0 && (a == 0 || a == c) && (b == 0 || b == c))) := by
  rw [Bool.eq_iff_iff]
  simp only [Bool.not_eq_true', Bool.and_eq_false_iff, Bool.and_eq_true, Bool.or_eq_true, decide_eq_true_eq, decide_eq_false_iff_not,
    bne_iff_ne, beq_iff_eq, Bool.or_eq_false_iff, beq_eq_false_iff_ne, ne_eq, Decidable.not_not, bne_eq_false_iff_eq]
  omega

theorem toNat4 : (4 : Int).toNat = 4 := rfl
theorem toNat1 : (1 : Int).toNat = 1 := rfl
theorem toNat15 : (15 : Int).toNat = 15 := rfl

/-- the model's match on the version byte (its matcher, by name: the model is hand-written) as an if-chain -/
theorem ver_match_eq (v : Bytes) :
    parseHeader.match_1 (fun _ => Option Nat) v (fun _ => some 1) (fun _ => some 2) (fun _ => some 3) (fun _ => none) =
    if v = [0] then some 1 else if v = [50] then some 2 else if v = [51] then some 3 else none := by
  split
  · rfl
  · rfl
  · rfl
  · rename_i h0 h50 h51
    rw [if_neg h0, if_neg h50, if_neg h51]

/-- the part of `parse_header` after the version byte -/
theorem parse_header_tail (version : Src.Version) (c : Bytes) :
  Except.map (fun p => (hdrOf p.fst, p.snd))
            (match readExact c 15 with
            | Except.ok (_, cursor) =>
              match readExact cursor 4 with
              | Except.ok (__t2, cursor) =>
                match readExact cursor 4 with
                | Except.ok (__t3, cursor) =>
                  match readExact cursor 4 with
                  | Except.ok (__t4, cursor) =>
                    match readExact cursor 4 with
                    | Except.ok (__t5, cursor) =>
                      match readExact cursor 4 with
                      | Except.ok (__t6, cursor) =>
                        match readExact cursor 4 with
                        | Except.ok (__t7, cursor) =>
                          if
                              (!(decide (((be32 __t6 : Nat) : Int) ≠ 0) && decide (((be32 __t7 : Nat) : Int) ≠ 0) &&
                                      (decide (((be32 __t2 : Nat) : Int) = 0) || decide (((be32 __t2 : Nat) : Int) = ((be32 __t6 : Nat) : Int))) &&
                                    (decide (((be32 __t3 : Nat) : Int) = 0) || decide (((be32 __t3 : Nat) : Int) = ((be32 __t6 : Nat) : Int))))) =
                                true then
                            Except.error TzFileError.invalidHeader
                          else
                            Except.ok
                              (({ version := version, utLocalCount := ((be32 __t2 : Nat) : Int), stdWallCount := ((be32 __t3 : Nat) : Int),
                                  leapCount := ((be32 __t4 : Nat) : Int), transitionCount := ((be32 __t5 : Nat) : Int), typeCount := ((be32 __t6 : Nat) : Int),
                                  charCount := ((be32 __t7 : Nat) : Int) } : Src.Header),
                                cursor)
                        | Except.error e => Except.error (TzFileError.parseData e)
                      | Except.error e => Except.error (TzFileError.parseData e)
                    | Except.error e => Except.error (TzFileError.parseData e)
                  | Except.error e => Except.error (TzFileError.parseData e)
                | Except.error e => Except.error (TzFileError.parseData e)
              | Except.error e => Except.error (TzFileError.parseData e)
            | Except.error e => Except.error (TzFileError.parseData e)) =
          (match readExact c 15 with
          | Except.error e => Except.error (TzFileError.parseData e)
          | Except.ok (_, c) =>
            match readExact c 4 with
            | Except.error e => Except.error (TzFileError.parseData e)
            | Except.ok (b1, c) =>
              match readExact c 4 with
              | Except.error e => Except.error (TzFileError.parseData e)
              | Except.ok (b2, c) =>
                match readExact c 4 with
                | Except.error e => Except.error (TzFileError.parseData e)
                | Except.ok (b3, c) =>
                  match readExact c 4 with
                  | Except.error e => Except.error (TzFileError.parseData e)
                  | Except.ok (b4, c) =>
                    match readExact c 4 with
                    | Except.error e => Except.error (TzFileError.parseData e)
                    | Except.ok (b5, c) =>
                      match readExact c 4 with
                      | Except.error e => Except.error (TzFileError.parseData e)
                      | Except.ok (b6, c) =>
                        if
                            (!(be32 b5 != 0 && be32 b6 != 0 && (be32 b1 == 0 || be32 b1 == be32 b5) &&
                                  (be32 b2 == 0 || be32 b2 == be32 b5))) =
                              true then
                          Except.error TzFileError.invalidHeader
                        else
                          Except.ok
                            (({ version := verOf version, utLocalCount := be32 b1, stdWallCount := be32 b2,
                                leapCount := be32 b3, transitionCount := be32 b4, typeCount := be32 b5,
                                charCount := be32 b6 } : Header),
                              c)) := by
  cases readExact c 15 with
  | error e => rfl
  | ok v =>
  obtain ⟨_, c⟩ := v
  dsimp only
  cases readExact c 4 with
  | error e => rfl
  | ok v =>
  obtain ⟨b1, c⟩ := v
  dsimp only
  cases readExact c 4 with
  | error e => rfl
  | ok v =>
  obtain ⟨b2, c⟩ := v
  dsimp only
  cases readExact c 4 with
  | error e => rfl
  | ok v =>
  obtain ⟨b3, c⟩ := v
  dsimp only
  cases readExact c 4 with
  | error e => rfl
  | ok v =>
  obtain ⟨b4, c⟩ := v
  dsimp only
  cases readExact c 4 with
  | error e => rfl
  | ok v =>
  obtain ⟨b5, c⟩ := v
  dsimp only
  cases readExact c 4 with
  | error e => rfl
  | ok v =>
  obtain ⟨b6, c⟩ := v
  dsimp only
  rw [header_test_eq]
  split
  · rfl
  · rfl

theorem parse_header_eq (c : Bytes) :
    (Src.parse_header c).map (fun p => (hdrOf p.1, p.2)) = parseHeader c := by
  unfold Src.parse_header parseHeader
  simp only [read_exact_toNat, be_unsigned_eq, toNat4, toNat1, toNat15]
  cases readExact c 4 with
  | error e => rfl
  | ok v =>
    obtain ⟨magic, c⟩ := v
    dsimp only
    by_cases hm : magic = [84, 90, 105, 102]
    · rw [if_neg (by simp only [bne_iff_ne, ne_eq, hm, not_true_eq_false, not_false_eq_true]), if_neg (by simp only [ne_eq, hm, not_true_eq_false, not_false_eq_true])]
      cases readExact c 1 with
      | error e => rfl
      | ok v =>
        obtain ⟨v, c⟩ := v
        dsimp only
        rw [ver_match_eq]
        simp only [decide_eq_true_eq]
        by_cases h0 : v = [0]
        · rw [if_pos h0, if_pos h0]; exact parse_header_tail _ _
        · rw [if_neg h0, if_neg h0]
          by_cases h50 : v = [50]
          · rw [if_pos h50, if_pos h50]; exact parse_header_tail _ _
          · rw [if_neg h50, if_neg h50]
            by_cases h51 : v = [51]
            · rw [if_pos h51, if_pos h51]; exact parse_header_tail _ _
            · rw [if_neg h51, if_neg h51]; rfl
    · rw [if_pos (by simp only [bne_iff_ne, ne_eq, hm, not_false_eq_true]), if_pos (by simp only [ne_eq, hm, not_false_eq_true])]
      rfl

theorem be_unsigned_nonneg (b : Bytes) : 0 ≤ Src.be_unsigned b := by
  unfold Src.be_unsigned; omega

/-- a header the source accepts has non-negative counts -/
theorem parse_header_nonneg (c : Bytes) (h : Src.Header) (r : Bytes) (hp : Src.parse_header c = .ok (h, r)) :
    HeaderNonneg h := by
  unfold Src.parse_header at hp
  dsimp only at hp
  repeat' split at hp
  all_goals first
    | (cases hp; done)
    | (rename_i heq; subst hp; (repeat' split at heq) <;> cases heq)
    | (cases hp
       exact ⟨be_unsigned_nonneg _, be_unsigned_nonneg _, be_unsigned_nonneg _, be_unsigned_nonneg _, be_unsigned_nonneg _, be_unsigned_nonneg _⟩)

theorem toNat_mul_nat (k n : Nat) : ((k : Int) * (n : Int)).toNat = k * n := by
  rw [← Int.natCast_mul, Int.toNat_natCast]
theorem toNat_mul_six (k : Nat) : ((k : Int) * 6).toNat = k * 6 := toNat_mul_nat k 6
theorem toNat_mul_add4 (k n : Nat) : ((k : Int) * ((n : Int) + 4)).toNat = k * (n + 4) := toNat_mul_nat k (n + 4)

theorem header_lift (h : Src.Header) (hn : HeaderNonneg h) :
    ∃ (a b c d e f : Nat), h = { version := h.version, utLocalCount := a, stdWallCount := b, leapCount := c, transitionCount := d, typeCount := e, charCount := f } := by
  obtain ⟨v, a, b, c, d, e, f⟩ := h
  obtain ⟨ha, hb, hc, hd, he, hf⟩ := hn
  dsimp only at ha hb hc hd he hf
  refine ⟨a.toNat, b.toNat, c.toNat, d.toNat, e.toNat, f.toNat, ?_⟩
  rw [Int.toNat_of_nonneg ha, Int.toNat_of_nonneg hb, Int.toNat_of_nonneg hc, Int.toNat_of_nonneg hd, Int.toNat_of_nonneg he, Int.toNat_of_nonneg hf]

theorem read_data_blocks_eq (ts : Nat) (c : Bytes) (h : Src.Header) (hn : HeaderNonneg h) :
    (Src.read_data_blocks (ts : Int) c h).map (fun p => (dbOf p.1, p.2)) = readDataBlocks ts c (hdrOf h) := by
  obtain ⟨a, b, cc, d, e, f, hh⟩ := header_lift h hn
  rw [hh]
  unfold Src.read_data_blocks readDataBlocks hdrOf
  simp only [read_exact_toNat, Int.toNat_natCast, toNat_mul_nat, toNat_mul_six, toNat_mul_add4]
  cases readExact c (d * ts) with
  | error e => rfl
  | ok v =>
  obtain ⟨b1, c⟩ := v
  dsimp only
  cases readExact c d with
  | error e => rfl
  | ok v =>
  obtain ⟨b2, c⟩ := v
  dsimp only
  cases readExact c (e * 6) with
  | error e => rfl
  | ok v =>
  obtain ⟨b3, c⟩ := v
  dsimp only
  cases readExact c f with
  | error e => rfl
  | ok v =>
  obtain ⟨b4, c⟩ := v
  dsimp only
  cases readExact c (cc * (ts + 4)) with
  | error e => rfl
  | ok v =>
  obtain ⟨b5, c⟩ := v
  dsimp only
  cases readExact c b with
  | error e => rfl
  | ok v =>
  obtain ⟨b6, c⟩ := v
  dsimp only
  cases readExact c a with
  | error e => rfl
  | ok v =>
  obtain ⟨b7, c⟩ := v
  rfl

theorem ver3_eq (v : Src.Version) : decide (v = Src.Version.v3) = (verOf v == 3) := by
  cases v <;> rfl

theorem map_zip_map_left {α β γ δ : Type} (g : α → β) (k : β × γ → δ) (l1 : List α) (l2 : List γ) :
    (List.zip (l1.map g) l2).map k = (List.zip l1 l2).map (fun x => k (g x.1, x.2)) := by
  induction l1 generalizing l2 with
  | nil => rfl
  | cons x xs ih =>
    cases l2 with
    | nil => rfl
    | cons y ys => simp only [List.map_cons, List.zip_cons_cons, ih]

theorem unwrap_first_chunk4 (c : Bytes) (h : 4 ≤ c.length) : Src.unwrap (Src.first_chunk 4 c) = c.take 4 :=
  unwrap_first_chunk_take 4 c h

theorem dec0_eq (x : Nat) : decide (x = 0) = !(x != 0) := by
  by_cases hx : x = 0 <;> simp [hx]

theorem parse_time_eq (n : Int) (d : Src.DataBlocks) (b : Bytes) :
    (if (decide (n = 4)) then (Src.DataBlocks_4.parse_time d b) else (Src.DataBlocks_8.parse_time d b)) = beSigned b := by
  unfold Src.DataBlocks_4.parse_time Src.DataBlocks_8.parse_time
  rw [ite_self, be_signed_eq]

/-- the decoder of one data block, for the two time sizes the source instantiates -/
theorem data_blocks_parse_eq (ts : Nat) (hts : ts = 4 ∨ ts = 8) (d : Src.DataBlocks) (h : Src.Header) (hn : HeaderNonneg h)
    (footer : Option Bytes) :
    Src.DataBlocks.parse (ts : Int) d h footer = (dbOf d).parse ts (hdrOf h) footer := by
  have hts0 : 0 < ts := by omega
  obtain ⟨a, b, cc, dd, e, f, hh⟩ := header_lift h hn
  rw [hh]
  generalize h.version = ver
  clear hh hn h
  unfold Src.DataBlocks.parse DataBlocks.parse hdrOf dbOf
  dsimp only
  simp only [parse_time_eq, Int.toNat_natCast, chunks_exact_eq, show ((ts : Int) + 4) = ((ts + 4 : Nat) : Int) from rfl,
    show (6 : Int) = ((6 : Nat) : Int) from rfl]
  -- the transitions
  generalize hR1 : Src.forIn ((chunksExact ts d.transitionTimes).zip d.transitionTypes) _ [] = R1
  rw [forIn_push (fun x : Bytes × Nat => ({ unixLeapTime := beSigned x.1, localTimeTypeIndex := x.2 } : Transition))] at hR1
  rotate_left
  · intro x hx s
    have hl := chunks_length ts _ x.1 (List.of_mem_zip hx).1
    rw [unwrap_first_chunk ts _ hl]
    rfl
  subst hR1
  -- the leap seconds
  generalize hR3 : Src.forIn (chunksExact (ts + 4) d.leapSeconds) _ [] = R3
  rw [forIn_push (fun c : Bytes => ({ unixLeapTime := beSigned (List.take ts c), correction := beSigned (List.take 4 (List.drop ts c)) } : LeapSecond))] at hR3
  rotate_left
  · intro x hx s
    have hl := chunks_length (ts + 4) _ x hx
    rw [unwrap_split_first_chunk ts _ (by omega)]
    dsimp only
    rw [unwrap_first_chunk4 _ (by rw [List.length_drop]; omega), be_signed_eq]
    rfl
  subst hR3
  -- the local time types
  generalize hR2 : Src.forInR (chunksExact 6 d.localTimeTypes) _ [] = R2
  rw [ltt_loop d.timeZoneDesignations f] at hR2
  rotate_left
  · intro x hx s
    have hd6 := chunks_length 6 _ x hx
    obtain _ | ⟨a0, _ | ⟨a1, _ | ⟨a2, _ | ⟨a3, _ | ⟨a4, _ | ⟨a5, _ | ⟨a6, r⟩⟩⟩⟩⟩⟩⟩ := x <;> simp at hd6
    unfold parseLocalTimeType
    simp only [Src.unwrap, Option.getD_some]
    have e0 : Src.idx [a0, a1, a2, a3, a4, a5] 0 = a0 := rfl
    have e1 : Src.idx [a0, a1, a2, a3, a4, a5] 1 = a1 := rfl
    have e2 : Src.idx [a0, a1, a2, a3, a4, a5] 2 = a2 := rfl
    have e3 : Src.idx [a0, a1, a2, a3, a4, a5] 3 = a3 := rfl
    have e4 : Src.idx [a0, a1, a2, a3, a4, a5] 4 = a4 := rfl
    have e5 : Src.idx [a0, a1, a2, a3, a4, a5] 5 = a5 := rfl
    have g4 : [a0, a1, a2, a3, a4, a5].getD 4 0 = a4 := rfl
    have g5 : [a0, a1, a2, a3, a4, a5].getD 5 0 = a5 := rfl
    have t4 : List.take 4 [a0, a1, a2, a3, a4, a5] = [a0, a1, a2, a3] := rfl
    simp only [e0, e1, e2, e3, e4, e5, g4, g5, t4, be_signed_eq]
    simp only [Int.toNat_natCast, decide_eq_true_eq]
    by_cases hbad : a4 ≠ 0 ∧ a4 ≠ 1
    · rw [if_pos hbad, if_neg hbad.1, if_neg hbad.2]
    · rw [if_neg hbad]
      generalize hF : (if a4 = 0 then Src.Flow.val false else _ : Src.Flow (Except TzError TimeZone) Bool) = F
      have hF' : F = Src.Flow.val (a4 == 1) := by
        subst hF
        by_cases h40 : a4 = 0
        · subst h40; rfl
        · have h41 : a4 = 1 := by omega
          subst h41; rfl
      rw [hF']
      generalize (a4 == 1) = b
      dsimp only
      by_cases hcf : a5 ≥ f
      · rw [if_pos hcf, if_pos (by omega)]
      · rw [if_neg hcf, if_neg (by omega)]
        have hps := position_span (fun c => decide (c = 0)) (fun x => x != 0) dec0_eq (List.drop a5 d.timeZoneDesignations)
        cases hp : Src.position (fun c => decide (c = 0)) (List.drop a5 d.timeZoneDesignations) with
        | none =>
          rw [hp] at hps
          dsimp only at hps ⊢
          rw [hps]
          rfl
        | some i =>
          rw [hp] at hps
          obtain ⟨h0, h1, h2⟩ := hps
          dsimp only
          have ei : ((a5 : Int) + i - (a5 : Int)).toNat = i.toNat := by omega
          have hr : List.isEmpty (spanWhile (fun x => x != 0) (List.drop a5 d.timeZoneDesignations)).snd = false := by
            cases hh : (spanWhile (fun x => x != 0) (List.drop a5 d.timeZoneDesignations)).snd with
            | nil => exact absurd hh h2
            | cons _ _ => rfl
          rw [ei, ← h1, hr]
          generalize (spanWhile (fun x => x != 0) (List.drop a5 d.timeZoneDesignations)).fst = name
          cases hn : name.isEmpty with
          | true =>
            simp only [Bool.not_true, Bool.false_eq_true, if_false, if_true]
            cases LocalTimeType.new (beSigned [a0, a1, a2, a3]) b none <;> rfl
          | false =>
            simp only [Bool.not_false, if_true, Bool.false_eq_true, if_false]
            cases LocalTimeType.new (beSigned [a0, a1, a2, a3]) b (some name) <;> rfl
  subst hR2
  cases parseLocalTimeTypes d.timeZoneDesignations f (chunksExact 6 d.localTimeTypes) with
  | error err => rfl
  | ok types =>
    dsimp only
    simp only [List.nil_append]
    unfold Src.PaddedZip.take
    simp only [Int.toNat_natCast]
    generalize hR4 : Src.forInR (List.zip (Src.paddedTake e d.stdWalls 0) (Src.paddedTake e d.utLocals 0)) _ () = R4
    rw [indicator_loop (Except.error (TzError.tzFile TzFileError.invalidStdWallUtLocal))] at hR4
    rotate_left
    · intro s u
      dsimp only
      rw [show ∀ c : Bool, (if c = true then true else false) = c from fun c => by cases c <;> rfl]
      rfl
    subst hR4
    by_cases hok : indicatorPairsOk e d.stdWalls d.utLocals = true
    · simp only [hok, if_true, Bool.not_true, Bool.false_eq_true, if_false]
      simp only [parse_footer_eq]
      rw [footer_eq, ver3_eq, map_zip_map_left]
      cases footer with
      | none => exact zone_new_eq' _ _ _ _
      | some ft =>
        dsimp only
        cases parseFooter ft (verOf ver == 3) with
        | error err => rfl
        | ok rule => exact zone_new_eq' _ _ _ _
    · simp only [hok, Bool.false_eq_true, if_false, Bool.not_false, if_true]

theorem read_data_blocks_4 (c : Bytes) (h : Src.Header) (hn : HeaderNonneg h) :
    (Src.read_data_blocks 4 c h).map (fun p => (dbOf p.1, p.2)) = readDataBlocks 4 c (hdrOf h) :=
  read_data_blocks_eq 4 c h hn

theorem read_data_blocks_8 (c : Bytes) (h : Src.Header) (hn : HeaderNonneg h) :
    (Src.read_data_blocks 8 c h).map (fun p => (dbOf p.1, p.2)) = readDataBlocks 8 c (hdrOf h) :=
  read_data_blocks_eq 8 c h hn

theorem data_blocks_parse_4 (d : Src.DataBlocks) (h : Src.Header) (hn : HeaderNonneg h) (footer : Option Bytes) :
    Src.DataBlocks.parse 4 d h footer = (dbOf d).parse 4 (hdrOf h) footer :=
  data_blocks_parse_eq 4 (Or.inl rfl) d h hn footer

theorem data_blocks_parse_8 (d : Src.DataBlocks) (h : Src.Header) (hn : HeaderNonneg h) (footer : Option Bytes) :
    Src.DataBlocks.parse 8 d h footer = (dbOf d).parse 8 (hdrOf h) footer :=
  data_blocks_parse_eq 8 (Or.inr rfl) d h hn footer

/-- the second part of a version 2/3 file -/
theorem parse_v2_tail (h : Src.Header) (hn : HeaderNonneg h) (c : Bytes) :
    (match (Src.read_data_blocks 4 c h) with
      | .ok ((_, cursor)) =>
        match (Src.parse_header cursor) with
        | .ok ((header, cursor)) =>
          match (Src.read_data_blocks 8 cursor header) with
          | .ok ((data_blocks, cursor)) =>
            match (Src.DataBlocks.parse 8 data_blocks header (some cursor)) with
            | .ok __t2 => (Except.ok __t2)
            | .error e => (Except.error e)
          | .error e => (Except.error (TzVerif.Model.TzError.tzFile e))
        | .error e => (Except.error (TzVerif.Model.TzError.tzFile e))
      | .error e => (Except.error (TzVerif.Model.TzError.tzFile e))) =
    (match readDataBlocks 4 c (hdrOf h) with
    | .error e => .error (.tzFile e)
    | .ok (_, c) =>
    match parseHeader c with
    | .error e => .error (.tzFile e)
    | .ok (h2, c) =>
    match readDataBlocks 8 c h2 with
    | .error e => .error (.tzFile e)
    | .ok (blocks, footer) => blocks.parse 8 h2 (some footer) parseFooter) := by
  rw [← read_data_blocks_4 c h hn]
  cases Src.read_data_blocks 4 c h with
  | error e => rfl
  | ok v =>
    obtain ⟨_, c1⟩ := v
    dsimp only [Except.map]
    rw [← parse_header_eq]
    cases hp : Src.parse_header c1 with
    | error e => rfl
    | ok v =>
      obtain ⟨h2, c2⟩ := v
      have hn2 := parse_header_nonneg c1 h2 c2 hp
      dsimp only [Except.map]
      rw [← read_data_blocks_8 c2 h2 hn2]
      cases Src.read_data_blocks 8 c2 h2 with
      | error e => rfl
      | ok v =>
        obtain ⟨d, c3⟩ := v
        dsimp only [Except.map]
        rw [data_blocks_parse_8 d h2 hn2]
        cases DataBlocks.parse 8 (dbOf d) (hdrOf h2) (some c3) <;> rfl

/-- the whole decoder -/
theorem parse_tz_file_eq (b : Bytes) : Src.parse_tz_file b = parseTzFile b := by
  unfold Src.parse_tz_file parseTzFile parseTzFileWith
  dsimp only
  rw [← parse_header_eq]
  cases hp : Src.parse_header b with
  | error e => rfl
  | ok v =>
    obtain ⟨h, c⟩ := v
    have hn := parse_header_nonneg b h c hp
    dsimp only [Except.map]
    cases hv : h.version with
    | v1 =>
      have e1 : (hdrOf h).version = 1 := by unfold hdrOf; rw [hv]; rfl
      rw [if_pos e1]
      dsimp only
      rw [← read_data_blocks_4 c h hn]
      cases Src.read_data_blocks 4 c h with
      | error e => rfl
      | ok v =>
        obtain ⟨d, c1⟩ := v
        dsimp only [Except.map]
        rw [data_blocks_parse_4 d h hn]
        cases DataBlocks.parse 4 (dbOf d) (hdrOf h) none <;> rfl
    | v2 =>
      have e1 : ¬ (hdrOf h).version = 1 := by unfold hdrOf; rw [hv]; dsimp only; decide
      rw [if_neg e1]
      exact parse_v2_tail h hn c
    | v3 =>
      have e1 : ¬ (hdrOf h).version = 1 := by unfold hdrOf; rw [hv]; dsimp only; decide
      rw [if_neg e1]
      exact parse_v2_tail h hn c
end TzVerif.Proofs.SrcEq
