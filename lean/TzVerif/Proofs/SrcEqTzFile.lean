/-
The translated source (Generated/Src.lean, regenerated from /repo/src on every run by tools/rs2lean.py) equals the
hand-written model: src/parse/tz_file.rs — the TZif v1/v2/v3 decoder (C08; also C10 and the file branch of C20).

The source has a `Version` enum, `usize` counts and a const generic `TIME_SIZE`; the model stores the version as
1/2/3, the counts as `Nat` and passes the time size as an argument: `hdrOf` / `dbOf` convert.
Given their model meaning (trusted, DESIGN §13): `parse_footer` (`str::from_utf8`, trimming: `Model.parseFooter`, whose
TZ-string parser is the translated one by `parse_posix_tz_eq`), `LocalTimeType::new`, `uN/iN::from_be_bytes`,
`chunks_exact`, `first_chunk`, `split_first_chunk`, `<[u8; N]>::try_from` and `unwrap` on exact chunks,
`chain(iter::repeat(0))` / `zip` / `take`, `Option::and_then`, `transpose`. `TimeZone::new` is given the meaning of the
translated `TimeZoneRef::new` (the owned constructor builds the borrowed view and checks it: C13).
-/
import TzVerif.Generated.Src
import TzVerif.Model.TzFile
import TzVerif.Proofs.SrcEqTzString
import TzVerif.Proofs.SrcEqZone

namespace TzVerif.Proofs.SrcEq
open TzVerif TzVerif.Model TzVerif.Gen

def verOf : Src.Version → Nat
  | .v1 => 1 | .v2 => 2 | .v3 => 3

def hdrOf (h : Src.Header) : Header :=
  { version := verOf h.version, utLocalCount := h.utLocalCount.toNat, stdWallCount := h.stdWallCount.toNat,
    leapCount := h.leapCount.toNat, transitionCount := h.transitionCount.toNat, typeCount := h.typeCount.toNat,
    charCount := h.charCount.toNat }

def dbOf (d : Src.DataBlocks) : DataBlocks :=
  { transitionTimes := d.transitionTimes, transitionTypes := d.transitionTypes, localTimeTypes := d.localTimeTypes,
    designations := d.timeZoneDesignations, leapSeconds := d.leapSeconds, stdWalls := d.stdWalls, utLocals := d.utLocals }

/-- the counts of a header are `u32` values converted to `usize`: non-negative -/
def HeaderNonneg (h : Src.Header) : Prop :=
  0 ≤ h.utLocalCount ∧ 0 ≤ h.stdWallCount ∧ 0 ≤ h.leapCount ∧ 0 ≤ h.transitionCount ∧ 0 ≤ h.typeCount ∧ 0 ≤ h.charCount

theorem be_unsigned_eq (b : Bytes) : Src.be_unsigned b = (be32 b : Int) := by
  sorry

theorem be_signed_eq (b : Bytes) : Src.be_signed b = beSigned b := by
  sorry

theorem parse_header_eq (c : Bytes) :
    (Src.parse_header c).map (fun p => (hdrOf p.1, p.2)) = parseHeader c := by
  sorry

/-- a header the source accepts has non-negative counts -/
theorem parse_header_nonneg (c : Bytes) (h : Src.Header) (r : Bytes) (hp : Src.parse_header c = .ok (h, r)) :
    HeaderNonneg h := by
  sorry

theorem read_data_blocks_eq (ts : Nat) (c : Bytes) (h : Src.Header) (hn : HeaderNonneg h) :
    (Src.read_data_blocks (ts : Int) c h).map (fun p => (dbOf p.1, p.2)) = readDataBlocks ts c (hdrOf h) := by
  sorry

/-- the decoder of one data block, for the two time sizes the source instantiates -/
theorem data_blocks_parse_eq (ts : Nat) (hts : ts = 4 ∨ ts = 8) (d : Src.DataBlocks) (h : Src.Header) (hn : HeaderNonneg h)
    (footer : Option Bytes) :
    Src.DataBlocks.parse (ts : Int) d h footer = (dbOf d).parse ts (hdrOf h) footer := by
  sorry

/-- the whole decoder -/
theorem parse_tz_file_eq (b : Bytes) : Src.parse_tz_file b = parseTzFile b := by
  sorry

end TzVerif.Proofs.SrcEq
