/-
C11 step 5: table of near pairs, start month 3 (kernel evaluation; 15 chunks of 245 pairs).
-/
import TzVerif.Proofs.ConsistMwdPair

namespace TzVerif.Proofs.CM

set_option maxRecDepth 100000

theorem near_3_0_1 : ∀ d1 ∈ r7, ∀ w2 ∈ r5, ∀ d2 ∈ r7, nearOK 3 1 d1 3 w2 d2 = true := by decide +kernel
theorem near_3_0_2 : ∀ d1 ∈ r7, ∀ w2 ∈ r5, ∀ d2 ∈ r7, nearOK 3 2 d1 3 w2 d2 = true := by decide +kernel
theorem near_3_0_3 : ∀ d1 ∈ r7, ∀ w2 ∈ r5, ∀ d2 ∈ r7, nearOK 3 3 d1 3 w2 d2 = true := by decide +kernel
theorem near_3_0_4 : ∀ d1 ∈ r7, ∀ w2 ∈ r5, ∀ d2 ∈ r7, nearOK 3 4 d1 3 w2 d2 = true := by decide +kernel
theorem near_3_0_5 : ∀ d1 ∈ r7, ∀ w2 ∈ r5, ∀ d2 ∈ r7, nearOK 3 5 d1 3 w2 d2 = true := by decide +kernel
theorem near_3_1_1 : ∀ d1 ∈ r7, ∀ w2 ∈ r5, ∀ d2 ∈ r7, nearOK 3 1 d1 4 w2 d2 = true := by decide +kernel
theorem near_3_1_2 : ∀ d1 ∈ r7, ∀ w2 ∈ r5, ∀ d2 ∈ r7, nearOK 3 2 d1 4 w2 d2 = true := by decide +kernel
theorem near_3_1_3 : ∀ d1 ∈ r7, ∀ w2 ∈ r5, ∀ d2 ∈ r7, nearOK 3 3 d1 4 w2 d2 = true := by decide +kernel
theorem near_3_1_4 : ∀ d1 ∈ r7, ∀ w2 ∈ r5, ∀ d2 ∈ r7, nearOK 3 4 d1 4 w2 d2 = true := by decide +kernel
theorem near_3_1_5 : ∀ d1 ∈ r7, ∀ w2 ∈ r5, ∀ d2 ∈ r7, nearOK 3 5 d1 4 w2 d2 = true := by decide +kernel
theorem near_3_2_1 : ∀ d1 ∈ r7, ∀ w2 ∈ r5, ∀ d2 ∈ r7, nearOK 3 1 d1 2 w2 d2 = true := by decide +kernel
theorem near_3_2_2 : ∀ d1 ∈ r7, ∀ w2 ∈ r5, ∀ d2 ∈ r7, nearOK 3 2 d1 2 w2 d2 = true := by decide +kernel
theorem near_3_2_3 : ∀ d1 ∈ r7, ∀ w2 ∈ r5, ∀ d2 ∈ r7, nearOK 3 3 d1 2 w2 d2 = true := by decide +kernel
theorem near_3_2_4 : ∀ d1 ∈ r7, ∀ w2 ∈ r5, ∀ d2 ∈ r7, nearOK 3 4 d1 2 w2 d2 = true := by decide +kernel
theorem near_3_2_5 : ∀ d1 ∈ r7, ∀ w2 ∈ r5, ∀ d2 ∈ r7, nearOK 3 5 d1 2 w2 d2 = true := by decide +kernel

theorem near_3 : ∀ m2 ∈ nearMonths 3, ∀ w1 ∈ r5, ∀ d1 ∈ r7, ∀ w2 ∈ r5, ∀ d2 ∈ r7,
    nearOK 3 w1 d1 m2 w2 d2 = true := by
  intro m2 h2 w1 h1
  have e : nearMonths 3 = [3, 4, 2] := by decide
  rw [e] at h2
  simp only [r5, List.mem_cons, List.not_mem_nil, or_false] at h1 h2
  rcases h2 with h | h | h <;> subst h <;> rcases h1 with h | h | h | h | h <;> subst h
  · exact near_3_0_1
  · exact near_3_0_2
  · exact near_3_0_3
  · exact near_3_0_4
  · exact near_3_0_5
  · exact near_3_1_1
  · exact near_3_1_2
  · exact near_3_1_3
  · exact near_3_1_4
  · exact near_3_1_5
  · exact near_3_2_1
  · exact near_3_2_2
  · exact near_3_2_3
  · exact near_3_2_4
  · exact near_3_2_5

end TzVerif.Proofs.CM
