/-
C07: the arithmetic / indexing / unreachable / allocation sites of the modelled functions cannot
fail. INTERFACE used by Properties/C07.lean.
The model computes on unbounded `Int`; "cannot overflow" means every unchecked intermediate value of
the Rust expression lies in the range of its Rust type for all inputs of the argument types.
-/
import TzVerif.Model.TzFile
import TzVerif.Model.Find
import TzVerif.Spec.Zone
import TzVerif.Proofs.Calendar

namespace TzVerif.Proofs
open TzVerif.Model TzVerif.Gen

def InI64 (x : Int) : Prop := i64Min ≤ x ∧ x ≤ i64Max
def InI32 (x : Int) : Prop := i32Min ≤ x ∧ x ≤ i32Max

/-- `days_since_unix_epoch(year: i32, month ∈ 1..=12, month_day ∈ 1..=32)`: every partial sum fits i64 -/
theorem daysSinceUnixEpoch_range (y m d : Int) (hy : InI32 y) (hm : 1 ≤ m ∧ m ≤ 12) (hd : 1 ≤ d ∧ d ≤ 32) :
    -800000000000 ≤ daysSinceUnixEpoch y m d ∧ daysSinceUnixEpoch y m d ≤ 800000000000 ∧
    InI64 ((y - 1970) * 365) := by
  sorry

/-- `unix_time(year: i32, month, month_day, hour, minute, second: u8)` -/
theorem unixTime_range (y m d h mi s : Int) (hy : InI32 y) (hm : 1 ≤ m ∧ m ≤ 12) (hd : 1 ≤ d ∧ d ≤ 32)
    (hh : 0 ≤ h ∧ h ≤ 255) (hmi : 0 ≤ mi ∧ mi ≤ 255) (hs : 0 ≤ s ∧ s ≤ 255) :
    -70000000000000000 ≤ unixTime y m d h mi s ∧ unixTime y m d h mi s ≤ 70000000000000000 := by
  sorry

/-- the "Overflow is not possible" subtractions of `DateTime::new` and `find_date_time`:
    unix_time(fields) − offset, start/end time − offset -/
theorem offset_subtractions_fit (y m d h mi s off st : Int) (hy : InI32 y) (hm : 1 ≤ m ∧ m ≤ 12) (hd : 1 ≤ d ∧ d ≤ 32)
    (hh : 0 ≤ h ∧ h ≤ 255) (hmi : 0 ≤ mi ∧ mi ≤ 255) (hs : 0 ≤ s ∧ s ≤ 255) (ho : InI32 off) (hst : InI32 st) :
    InI64 (unixTime y m d h mi s - off) ∧ InI64 (st - off) := by
  sorry

/-- `RuleDay::unix_time(year, day_time_in_utc)` for the years the callers pass (guarded to
    [i32::MIN+1, i32::MAX−1]) and day times built from two i32 values -/
theorem ruleDay_unixTime_fits (d : RuleDay) (y t : Int) (hy : i32Min + 1 ≤ y ∧ y ≤ i32Max - 1)
    (ht : -4294967296 ≤ t ∧ t ≤ 4294967296)
    (hv : match d with
      | .julian1 n => 1 ≤ n ∧ n ≤ 365
      | .julian0 n => 0 ≤ n ∧ n ≤ 365
      | .mwd mo w wd => 1 ≤ mo ∧ mo ≤ 12 ∧ 1 ≤ w ∧ w ≤ 5 ∧ 0 ≤ wd ∧ wd ≤ 6) :
    InI64 (d.unixTime y t) ∧
    1 ≤ (d.transitionDate y).1 ∧ (d.transitionDate y).1 ≤ 12 ∧ 1 ≤ (d.transitionDate y).2 ∧ (d.transitionDate y).2 ≤ 32 := by
  sorry

/-- `from_timespec` after its `checked_sub`: the year expression fits i64 for every i64 input, the
    month index stays inside the 12-entry table and the narrowing casts (`as u8`) are lossless -/
theorem fromTimespec_intermediates (t ns : Int) (ht : InI64 t) (c : UtcDateTime)
    (h : UtcDateTime.fromTimespec t ns = .ok c) :
    1 ≤ c.month ∧ c.month ≤ 12 ∧ 1 ≤ c.monthDay ∧ c.monthDay ≤ 31 ∧ 0 ≤ c.hour ∧ c.hour ≤ 23 ∧
    0 ≤ c.minute ∧ c.minute ≤ 59 ∧ 0 ≤ c.second ∧ c.second ≤ 59 := by
  sorry

theorem fromTimespec_year_expr_fits (t : Int) (ht : InI64 t) (hs : InI64 (t - UNIX_OFFSET_SECS)) :
    let seconds := t - UNIX_OFFSET_SECS
    let days := seconds / 86400
    InI64 (2000 + 3 + 24 * 4 + 3 * 100 + (days / 146097) * 400 + 1) ∧ InI64 ((days / 146097 - 1) * 400) := by
  sorry

/-- the `unreachable!()` of `check_two_month_week_days`: after sorting by week, (week 5, week 1..4) in
    the same month cannot occur -/
theorem unreachable_arm_not_taken (m1 w1 wd1 t1 m2 w2 wd2 t2 : Int) (hw1 : 1 ≤ w1 ∧ w1 ≤ 5) (hw2 : 1 ≤ w2 ∧ w2 ≤ 5)
    (hm : (m2 - m1) % 12 = 0) :
    let wb := if w1 ≤ w2 then w1 else w2
    let wa := if w1 ≤ w2 then w2 else w1
    ¬ (wb = 5 ∧ 1 ≤ wa ∧ wa ≤ 4) := by
  sorry

/-- the `unreachable!()` of `TzAsciiStr::as_bytes`: the length byte of an accepted designation is 3..=7 -/
theorem designation_length_byte (input n : List Nat) (h : TzAsciiStr.new input = .ok n) :
    n = input ∧ 3 ≤ n.length ∧ n.length ≤ 7 ∧ ∀ b ∈ n, b < 128 := by
  sorry

/-- slice indexing in the lookup: for a well-formed zone the type index used is in range -/
theorem lookup_index_in_range (z : TimeZone) (hw : Spec.WFZone z) (L : Int) :
    Spec.typeIndexAt z.transitions L < z.localTimeTypes.length ∧ 0 < z.localTimeTypes.length := by
  sorry

/-- `Vec::with_capacity(count)` in the TZif decoder is requested only after the blocks were read:
    every element count is bounded by the input length (allocation ≤ a small multiple of the input) -/
theorem capacity_bounded_by_input (ts : Nat) (hts : 0 < ts) (c : Bytes) (h : Header) (blocks : DataBlocks) (rest : Bytes)
    (hr : readDataBlocks ts c h = .ok (blocks, rest)) :
    h.transitionCount ≤ c.length ∧ h.typeCount ≤ c.length ∧ h.leapCount ≤ c.length ∧
    h.transitionCount * ts + h.transitionCount + h.typeCount * 6 + h.charCount + h.leapCount * (ts + 4) +
      h.stdWallCount + h.utLocalCount + rest.length = c.length := by
  sorry

/-- header counts are u32 values: the usize products of `read_data_blocks` cannot overflow on a 64-bit target -/
theorem header_counts_are_u32 (c : Bytes) (hb : ∀ b ∈ c, b < 256) (h : Header) (rest : Bytes) (hp : parseHeader c = .ok (h, rest)) :
    h.transitionCount < 2 ^ 32 ∧ h.typeCount < 2 ^ 32 ∧ h.charCount < 2 ^ 32 ∧ h.leapCount < 2 ^ 32 ∧
    h.stdWallCount < 2 ^ 32 ∧ h.utLocalCount < 2 ^ 32 ∧ h.leapCount * (8 + 4) < 2 ^ 64 ∧ h.transitionCount * 8 < 2 ^ 64 := by
  sorry

/-- TZ string arithmetic: the i32 products/sums of `parse_offset` / `parse_rule_time(_extended)` are only
    evaluated after the range checks, so they fit -/
theorem tz_offset_arith_fits (c : Bytes) (v : Int) (rest : Bytes) (h : parseOffset c = .ok (v, rest)) :
    -89999 ≤ v ∧ v ≤ 89999 ∧ InI32 (-v) ∧ InI32 (v - 3600) := by
  sorry

theorem tz_rule_time_arith_fits (c : Bytes) (ext : Bool) (v : Int) (rest : Bytes)
    (h : (if ext then parseRuleTimeExtended c else parseRuleTime c) = .ok (v, rest)) :
    -604799 ≤ v ∧ v ≤ 604799 := by
  sorry

end TzVerif.Proofs
