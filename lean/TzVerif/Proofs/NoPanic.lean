/-
C07: the arithmetic / indexing / unreachable / allocation sites of the modelled functions cannot
fail. INTERFACE used by Properties/C07.lean.
The model computes on unbounded `Int`; "cannot overflow" means every unchecked intermediate value of
the Rust expression lies in the range of its Rust type for all inputs of the argument types.
-/
import TzVerif.Model.TzFile
import TzVerif.Model.Find
import TzVerif.Spec.Zone
import TzVerif.Proofs.Calendar
import TzVerif.Proofs.RuleEval
import TzVerif.Proofs.TzifReject

namespace TzVerif.Proofs
open TzVerif.Model TzVerif.Gen

def InI64 (x : Int) : Prop := i64Min ≤ x ∧ x ≤ i64Max
def InI32 (x : Int) : Prop := i32Min ≤ x ∧ x ≤ i32Max

/-! ### helper lemmas (kept in their own namespace so that they cannot collide with other proof files) -/
namespace NoPanicAux

theorem dbm_bounds (y m : Int) : 0 ≤ Spec.daysBeforeMonth y m ∧ Spec.daysBeforeMonth y m ≤ 366 := by
  rw [daysBeforeMonth_eq]
  have h1 : 0 ≤ cumN m ∧ cumN m ≤ 365 := by unfold cumN; omega
  generalize cumN m = c at *
  split <;> omega

/-- the spec day number of any (year: i32, month, day ≤ 32) is within ±7.9·10¹¹ -/
theorem dayNumber_range (y m d : Int) (hy : InI32 y) (hd : 1 ≤ d ∧ d ≤ 32) :
    -790000000000 ≤ Spec.dayNumber y m d ∧ Spec.dayNumber y m d ≤ 790000000000 := by
  have := dbm_bounds y m
  unfold Spec.dayNumber Spec.daysBeforeYear
  simp only [InI32, i32Min, i32Max] at hy
  omega

theorem julian1_date_table : ∀ x : Nat, x < 365 →
    1 ≤ (julian1TransitionDate ((x : Int) + 1)).1 ∧ (julian1TransitionDate ((x : Int) + 1)).1 ≤ 12 ∧
    1 ≤ (julian1TransitionDate ((x : Int) + 1)).2 ∧ (julian1TransitionDate ((x : Int) + 1)).2 ≤ 32 := by
  decide +kernel

theorem julian0_date_table : ∀ b : Bool, ∀ x : Nat, x < 366 →
    1 ≤ (julian0TransitionDate (x : Int) b).1 ∧ (julian0TransitionDate (x : Int) b).1 ≤ 12 ∧
    1 ≤ (julian0TransitionDate (x : Int) b).2 ∧ (julian0TransitionDate (x : Int) b).2 ≤ 32 := by
  decide +kernel

/-- the (month, month day) a rule day passes to `days_since_unix_epoch` satisfies that function's
    documented input ranges (month 1..=12, month day 1..=32) -/
theorem transitionDate_bounds (d : RuleDay) (hv : ValidRuleDay d) (y : Int) :
    1 ≤ (d.transitionDate y).1 ∧ (d.transitionDate y).1 ≤ 12 ∧
    1 ≤ (d.transitionDate y).2 ∧ (d.transitionDate y).2 ≤ 32 := by
  cases d with
  | julian1 n =>
    obtain ⟨h1, h2⟩ := hv
    have := julian1_date_table (n - 1).toNat (by omega)
    have e : (((n - 1).toNat : Nat) : Int) + 1 = n := by omega
    rw [e] at this
    exact this
  | julian0 n =>
    obtain ⟨h1, h2⟩ := hv
    have := julian0_date_table (isLeapYear y) n.toNat (by omega)
    have e : ((n.toNat : Nat) : Int) = n := by omega
    rw [e] at this
    exact this
  | mwd m w wd =>
    obtain ⟨h1, h2, h3, h4, h5, h6⟩ := hv
    obtain ⟨e, b1, b2⟩ := mwd_day m w wd y ⟨h1, h2⟩ ⟨h3, h4⟩ ⟨h5, h6⟩
    have := monthLen_le y m
    show 1 ≤ (mwdTransitionDate m w wd y).1 ∧ (mwdTransitionDate m w wd y).1 ≤ 12 ∧
      1 ≤ (mwdTransitionDate m w wd y).2 ∧ (mwdTransitionDate m w wd y).2 ≤ 32
    rw [e]
    dsimp only
    omega

theorem allDesignationChars_lt (n : List Nat) (h : allDesignationChars n = true) : ∀ b ∈ n, b < 128 := by
  induction n with
  | nil => intro b hb; cases hb
  | cons x xs ih =>
    unfold allDesignationChars at h
    split at h
    · rename_i hx
      intro b hb
      rcases List.mem_cons.1 hb with rfl | hb
      · unfold isDesignationChar at hx
        simp only [Bool.or_eq_true, Bool.and_eq_true, decide_eq_true_eq, beq_iff_eq] at hx
        omega
      · exact ih h b hb
    · cases h

/-- four bytes read big-endian are a u32 -/
theorem be32_lt (b : Bytes) (hl : b.length = 4) (hb : ∀ x ∈ b, x < 256) : be32 b < 2 ^ 32 := by
  match b, hl with
  | [a0, a1, a2, a3], _ =>
    have h0 := hb a0 (by simp)
    have h1 := hb a1 (by simp)
    have h2 := hb a2 (by simp)
    have h3 := hb a3 (by simp)
    simp only [be32, List.foldl_cons, List.foldl_nil]
    omega

/-- a successful `read_exact` returns exactly `n` bytes, and both parts are still bytes -/
theorem readExact_bytes {c : Bytes} {n : Nat} {a r : Bytes} (h : readExact c n = .ok (a, r))
    (hb : ∀ x ∈ c, x < 256) : a.length = n ∧ (∀ x ∈ a, x < 256) ∧ (∀ x ∈ r, x < 256) := by
  obtain ⟨h1, rfl, rfl⟩ := readExact_eq_ok.1 h
  exact ⟨by simp only [List.length_take]; omega, fun x hx => hb x (List.mem_of_mem_take hx),
    fun x hx => hb x (List.mem_of_mem_drop hx)⟩

/-- `str::parse` on digits yields a natural number -/
theorem parseInt_nonneg {max : Nat} {ds : Bytes} {v : Int} (h : parseInt max ds = .ok v) : 0 ≤ v := by
  unfold parseInt at h
  split at h
  · cases h
  · dsimp only at h
    split at h
    · cases h
    · injection h with h
      subst h
      exact Int.natCast_nonneg _

theorem parseHhmmss_nonneg {c : Bytes} {h m s : Int} {r : Bytes}
    (hp : parseHhmmss c = .ok ((h, m, s), r)) : 0 ≤ h ∧ 0 ≤ m ∧ 0 ≤ s := by
  unfold parseHhmmss at hp
  repeat' (first | (split at hp <;> try contradiction) | (dsimp only at hp))
  all_goals
    simp only [Except.ok.injEq, Prod.mk.injEq] at hp
    obtain ⟨⟨rfl, rfl, rfl⟩, rfl⟩ := hp
    refine ⟨?_, ?_, ?_⟩ <;> first | exact Int.le_refl 0 | (apply parseInt_nonneg; assumption)

theorem parseSigned_props {c : Bytes} {sg h m s : Int} {r : Bytes}
    (hp : parseSignedHhmmss c = .ok ((sg, h, m, s), r)) : (sg = 1 ∨ sg = -1) ∧ 0 ≤ h ∧ 0 ≤ m ∧ 0 ≤ s := by
  unfold parseSignedHhmmss at hp
  split at hp
  rename_i sign c' hs
  split at hp
  · cases hp
  · rename_i h' m' s' c'' hq
    simp only [Except.ok.injEq, Prod.mk.injEq] at hp
    obtain ⟨⟨rfl, rfl, rfl, rfl⟩, rfl⟩ := hp
    refine ⟨?_, parseHhmmss_nonneg hq⟩
    split at hs <;> simp only [Prod.mk.injEq] at hs <;> omega

end NoPanicAux
open NoPanicAux

/-- `days_since_unix_epoch(year: i32, month ∈ 1..=12, month_day ∈ 1..=32)`: every partial sum fits i64 -/
theorem daysSinceUnixEpoch_range (y m d : Int) (hy : InI32 y) (hm : 1 ≤ m ∧ m ≤ 12) (hd : 1 ≤ d ∧ d ≤ 32) :
    -800000000000 ≤ daysSinceUnixEpoch y m d ∧ daysSinceUnixEpoch y m d ≤ 800000000000 ∧
    InI64 ((y - 1970) * 365) := by
  rw [daysSinceUnixEpoch_eq y m d hm]
  have := dayNumber_range y m d hy hd
  simp only [InI32, InI64, i32Min, i32Max, i64Min, i64Max] at *
  omega

/-- `unix_time(year: i32, month, month_day, hour, minute, second: u8)` -/
theorem unixTime_range (y m d h mi s : Int) (hy : InI32 y) (hm : 1 ≤ m ∧ m ≤ 12) (hd : 1 ≤ d ∧ d ≤ 32)
    (hh : 0 ≤ h ∧ h ≤ 255) (hmi : 0 ≤ mi ∧ mi ≤ 255) (hs : 0 ≤ s ∧ s ≤ 255) :
    -70000000000000000 ≤ unixTime y m d h mi s ∧ unixTime y m d h mi s ≤ 70000000000000000 := by
  rw [unixTime_eq_seconds y m d h mi s hm]
  have := dayNumber_range y m d hy hd
  unfold Spec.seconds
  omega

/-- the "Overflow is not possible" subtractions of `DateTime::new` and `find_date_time`:
    unix_time(fields) − offset, start/end time − offset -/
theorem offset_subtractions_fit (y m d h mi s off st : Int) (hy : InI32 y) (hm : 1 ≤ m ∧ m ≤ 12) (hd : 1 ≤ d ∧ d ≤ 32)
    (hh : 0 ≤ h ∧ h ≤ 255) (hmi : 0 ≤ mi ∧ mi ≤ 255) (hs : 0 ≤ s ∧ s ≤ 255) (ho : InI32 off) (hst : InI32 st) :
    InI64 (unixTime y m d h mi s - off) ∧ InI64 (st - off) := by
  have := unixTime_range y m d h mi s hy hm hd hh hmi hs
  generalize unixTime y m d h mi s = u at this
  simp only [InI32, InI64, i32Min, i32Max, i64Min, i64Max] at *
  omega

/-- `RuleDay::unix_time(year, day_time_in_utc)` for the years the callers pass (guarded to
    [i32::MIN+1, i32::MAX−1]) and day times built from two i32 values -/
theorem ruleDay_unixTime_fits (d : RuleDay) (y t : Int) (hy : i32Min + 1 ≤ y ∧ y ≤ i32Max - 1)
    (ht : -4294967296 ≤ t ∧ t ≤ 4294967296)
    (hv : match d with
      | .julian1 n => 1 ≤ n ∧ n ≤ 365
      | .julian0 n => 0 ≤ n ∧ n ≤ 365
      | .mwd mo w wd => 1 ≤ mo ∧ mo ≤ 12 ∧ 1 ≤ w ∧ w ≤ 5 ∧ 0 ≤ wd ∧ wd ≤ 6) :
    InI64 (d.unixTime y t) ∧
    1 ≤ (d.transitionDate y).1 ∧ (d.transitionDate y).1 ≤ 12 ∧ 1 ≤ (d.transitionDate y).2 ∧ (d.transitionDate y).2 ≤ 32 := by
  have hv' : ValidRuleDay d := by cases d <;> exact hv
  refine ⟨?_, transitionDate_bounds d hv' y⟩
  rw [ruleDay_unixTime_eq d hv' y t]
  have hb := ruleDayNumber_bounds d hv' y
  generalize Spec.ruleDayNumber d y = n at hb
  unfold Spec.daysBeforeYear at hb
  simp only [InI64, i32Min, i32Max, i64Min, i64Max] at *
  omega

/-- `from_timespec` after its `checked_sub`: the year expression fits i64 for every i64 input, the
    month index stays inside the 12-entry table and the narrowing casts (`as u8`) are lossless -/
theorem fromTimespec_intermediates (t ns : Int) (ht : InI64 t) (c : UtcDateTime)
    (h : UtcDateTime.fromTimespec t ns = .ok c) :
    1 ≤ c.month ∧ c.month ≤ 12 ∧ 1 ≤ c.monthDay ∧ c.monthDay ≤ 31 ∧ 0 ≤ c.hour ∧ c.hour ≤ 23 ∧
    0 ≤ c.minute ∧ c.minute ≤ 59 ∧ 0 ≤ c.second ∧ c.second ≤ 59 := by
  obtain ⟨⟨v1, v2, v3, v4⟩, a1, a2, a3, a4, a5, a6, -⟩ := fromTimespec_fields t ns c h
  have := monthLen_le c.year c.month
  exact ⟨v1, v2, v3, by omega, a1, a2, a3, a4, a5, a6⟩

theorem fromTimespec_year_expr_fits (t : Int) (ht : InI64 t) (hs : InI64 (t - UNIX_OFFSET_SECS)) :
    let seconds := t - UNIX_OFFSET_SECS
    let days := seconds / 86400
    InI64 (2000 + 3 + 24 * 4 + 3 * 100 + (days / 146097) * 400 + 1) ∧ InI64 ((days / 146097 - 1) * 400) := by
  intro seconds days
  simp only [seconds, days, InI64, i64Min, i64Max, UNIX_OFFSET_SECS] at *
  omega

/-- the `unreachable!()` of `check_two_month_week_days`: after sorting by week, (week 5, week 1..4) in
    the same month cannot occur -/
theorem unreachable_arm_not_taken (m1 w1 wd1 t1 m2 w2 wd2 t2 : Int) (hw1 : 1 ≤ w1 ∧ w1 ≤ 5) (hw2 : 1 ≤ w2 ∧ w2 ≤ 5)
    (hm : (m2 - m1) % 12 = 0) :
    let wb := if w1 ≤ w2 then w1 else w2
    let wa := if w1 ≤ w2 then w2 else w1
    ¬ (wb = 5 ∧ 1 ≤ wa ∧ wa ≤ 4) := by
  intro wb wa
  simp only [wb, wa]
  split <;> omega

/-- the `unreachable!()` of `TzAsciiStr::as_bytes`: the length byte of an accepted designation is 3..=7 -/
theorem designation_length_byte (input n : List Nat) (h : TzAsciiStr.new input = .ok n) :
    n = input ∧ 3 ≤ n.length ∧ n.length ≤ 7 ∧ ∀ b ∈ n, b < 128 := by
  unfold TzAsciiStr.new at h
  dsimp only at h
  split at h
  · cases h
  · split at h
    · cases h
    · rename_i h1 h2
      injection h with h
      subst h
      simp only [Bool.not_eq_true, Bool.not_eq_false', Bool.and_eq_true, decide_eq_true_eq] at h1 h2
      simp only [guardNameMinLen, guardNameMaxLen] at h1
      exact ⟨rfl, by omega, by omega, allDesignationChars_lt _ h2⟩

/-- slice indexing in the lookup: for a well-formed zone the type index used is in range -/
theorem lookup_index_in_range (z : TimeZone) (hw : Spec.WFZone z) (L : Int) :
    Spec.typeIndexAt z.transitions L < z.localTimeTypes.length ∧ 0 < z.localTimeTypes.length := by
  obtain ⟨hne, hidx, -⟩ := hw
  have hpos : 0 < z.localTimeTypes.length := List.length_pos_iff.2 hne
  refine ⟨?_, hpos⟩
  unfold Spec.typeIndexAt Spec.lastAtOrBefore
  split
  · exact hpos
  · rename_i t ht
    have hm := List.mem_of_getLast? ht
    exact hidx t (List.mem_filter.1 hm).1

/-- `Vec::with_capacity(count)` in the TZif decoder is requested only after the blocks were read:
    every element count is bounded by the input length (allocation ≤ a small multiple of the input) -/
theorem capacity_bounded_by_input (ts : Nat) (hts : 0 < ts) (c : Bytes) (h : Header) (blocks : DataBlocks) (rest : Bytes)
    (hr : readDataBlocks ts c h = .ok (blocks, rest)) :
    h.transitionCount ≤ c.length ∧ h.typeCount ≤ c.length ∧ h.leapCount ≤ c.length ∧
    h.transitionCount * ts + h.transitionCount + h.typeCount * 6 + h.charCount + h.leapCount * (ts + 4) +
      h.stdWallCount + h.utLocalCount + rest.length = c.length := by
  have f1 : h.transitionCount ≤ h.transitionCount * ts := Nat.le_mul_of_pos_right _ hts
  have f2 : h.leapCount ≤ h.leapCount * (ts + 4) := Nat.le_mul_of_pos_right _ (by omega)
  unfold readDataBlocks at hr
  generalize h.transitionCount * ts = n1 at *
  generalize h.transitionCount = n2 at *
  generalize h.typeCount = n3 at *
  generalize h.charCount = n4 at *
  generalize h.leapCount * (ts + 4) = n5 at *
  generalize h.leapCount = n5' at *
  generalize h.stdWallCount = n6 at *
  generalize h.utLocalCount = n7 at *
  repeat' (first | (split at hr <;> try contradiction) | (dsimp only at hr))
  simp only [Except.ok.injEq, Prod.mk.injEq] at hr
  obtain ⟨-, rfl⟩ := hr
  simp_all only [readExact_eq_ok, List.length_drop]
  omega

/-- header counts are u32 values: the usize products of `read_data_blocks` cannot overflow on a 64-bit target -/
theorem header_counts_are_u32 (c : Bytes) (hb : ∀ b ∈ c, b < 256) (h : Header) (rest : Bytes) (hp : parseHeader c = .ok (h, rest)) :
    h.transitionCount < 2 ^ 32 ∧ h.typeCount < 2 ^ 32 ∧ h.charCount < 2 ^ 32 ∧ h.leapCount < 2 ^ 32 ∧
    h.stdWallCount < 2 ^ 32 ∧ h.utLocalCount < 2 ^ 32 ∧ h.leapCount * (8 + 4) < 2 ^ 64 ∧ h.transitionCount * 8 < 2 ^ 64 := by
  unfold parseHeader at hp
  repeat' (first | (split at hp <;> try contradiction) | (dsimp only at hp))
  all_goals
    rename_i hc
    simp only [Except.ok.injEq, Prod.mk.injEq] at hp
    obtain ⟨rfl, rfl⟩ := hp
    rename_i _ magic c1 e1 hmag _ c2 v e2 _ b0 c3 e3 _ b1 c4 e4 _ b2 c5 e5 _ b3 c6 e6 _ b4 c7 e7 _ b5 c8 e8 _ b6 c9 e9
    obtain ⟨-, -, q1⟩ := readExact_bytes e1 hb
    obtain ⟨-, -, q2⟩ := readExact_bytes e2 q1
    obtain ⟨-, -, q3⟩ := readExact_bytes e3 q2
    obtain ⟨l1, m1, q4⟩ := readExact_bytes e4 q3
    obtain ⟨l2, m2, q5⟩ := readExact_bytes e5 q4
    obtain ⟨l3, m3, q6⟩ := readExact_bytes e6 q5
    obtain ⟨l4, m4, q7⟩ := readExact_bytes e7 q6
    obtain ⟨l5, m5, q8⟩ := readExact_bytes e8 q7
    obtain ⟨l6, m6, -⟩ := readExact_bytes e9 q8
    have k1 := be32_lt _ l1 m1
    have k2 := be32_lt _ l2 m2
    have k3 := be32_lt _ l3 m3
    have k4 := be32_lt _ l4 m4
    have k5 := be32_lt _ l5 m5
    have k6 := be32_lt _ l6 m6
    dsimp only
    omega

/-- TZ string arithmetic: the i32 products/sums of `parse_offset` / `parse_rule_time(_extended)` are only
    evaluated after the range checks, so they fit -/
theorem tz_offset_arith_fits (c : Bytes) (v : Int) (rest : Bytes) (h : parseOffset c = .ok (v, rest)) :
    -89999 ≤ v ∧ v ≤ 89999 ∧ InI32 (-v) ∧ InI32 (v - 3600) := by
  unfold parseOffset at h
  split at h
  · cases h
  · rename_i sg hh mm ss c' hq
    obtain ⟨hsg, n1, n2, n3⟩ := parseSigned_props hq
    split at h
    · cases h
    split at h
    · cases h
    split at h
    · cases h
    rename_i g1 g2 g3
    simp only [Except.ok.injEq, Prod.mk.injEq] at h
    obtain ⟨rfl, rfl⟩ := h
    simp only [Bool.not_eq_true, Bool.not_eq_false', Bool.and_eq_true, decide_eq_true_eq] at g1 g2 g3
    simp only [guardOffsetHourMax] at g1
    simp only [InI32, i32Min, i32Max]
    rcases hsg with rfl | rfl <;> omega

theorem tz_rule_time_arith_fits (c : Bytes) (ext : Bool) (v : Int) (rest : Bytes)
    (h : (if ext then parseRuleTimeExtended c else parseRuleTime c) = .ok (v, rest)) :
    -604799 ≤ v ∧ v ≤ 604799 := by
  cases ext
  · simp only [Bool.false_eq_true, if_false] at h
    unfold parseRuleTime at h
    split at h
    · cases h
    · rename_i hh mm ss c' hq
      obtain ⟨n1, n2, n3⟩ := parseHhmmss_nonneg hq
      split at h
      · cases h
      split at h
      · cases h
      split at h
      · cases h
      rename_i g1 g2 g3
      simp only [Except.ok.injEq, Prod.mk.injEq] at h
      obtain ⟨rfl, rfl⟩ := h
      simp only [Bool.not_eq_true, Bool.not_eq_false', Bool.and_eq_true, decide_eq_true_eq] at g1 g2 g3
      simp only [guardRuleTimeHourMax] at g1
      omega
  · simp only [if_true] at h
    unfold parseRuleTimeExtended at h
    split at h
    · cases h
    · rename_i sg hh mm ss c' hq
      obtain ⟨hsg, n1, n2, n3⟩ := parseSigned_props hq
      split at h
      · cases h
      split at h
      · cases h
      split at h
      · cases h
      rename_i g1 g2 g3
      simp only [Except.ok.injEq, Prod.mk.injEq] at h
      obtain ⟨rfl, rfl⟩ := h
      simp only [Bool.not_eq_true, Bool.not_eq_false', Bool.and_eq_true, decide_eq_true_eq] at g1 g2 g3
      simp only [guardRuleTimeExtHourMin, guardRuleTimeExtHourMax] at g1
      rcases hsg with rfl | rfl <;> omega

end TzVerif.Proofs
