import TzVerif.Proofs.TzParseNT
/-
C09 part 2, helper lemmas: the reference reader `readTz` as a plain function and its inversion; the two directions
of `parsePosixTz_eq_reference`.
-/
namespace TzVerif.Proofs.TzParseNT
open TzVerif.Model TzVerif.Spec TzVerif.Gen
set_option linter.unusedSimpArgs false

/-- the optional DST offset: absent when the cursor is at ',' -/
def doffP (s : Bytes) : Option (Option Signed × Bytes) :=
  if s.head? = some 44 then some (none, s) else (rSigned.run s).bind fun p => some (some p.1, p.2)

def signOk (ext : Bool) (r : RuleAst) : Bool := ext || (match r.time with | some x => x.sign.isNone | none => true)

/-- the rule part of the reader, from the cursor after the standard offset -/
def dstP (s2 : Bytes) : Option (DstAst × Bytes) :=
  (rName.run s2).bind fun p3 => (doffP p3.2).bind fun p4 => ((rByte 44).run p4.2).bind fun p5 =>
    (rRule.run p5.2).bind fun p6 => ((rByte 44).run p6.2).bind fun p7 => (rRule.run p7.2).bind fun p8 =>
      some ({ name := p3.1, offset := p4.1, start := p6.1, stop := p8.1 }, p8.2)

theorem readTz_eq (ext : Bool) (b : Bytes) : readTz ext b =
    (rName.run b).bind fun p1 => (rSigned.run p1.2).bind fun p2 =>
      if p2.2 = [] then some { name := p1.1, offset := p2.1, dst := none }
      else (dstP p2.2).bind fun q =>
        if q.2 = [] ∧ signOk ext q.1.start = true ∧ signOk ext q.1.stop = true then
          some { name := p1.1, offset := p2.1, dst := some q.1 } else none := by
  unfold readTz
  simp only [StateT.run_bind, StateT.run_get, pure_bind]
  rcases rName.run b with _ | ⟨n, s1⟩
  · rfl
  rstep
  rcases rSigned.run s1 with _ | ⟨o, s2⟩
  · rfl
  rstep
  rcases s2 with _ | ⟨c, s2⟩
  · rfl
  rstep
  simp only [List.cons_ne_nil, if_false, reduceCtorEq]
  unfold dstP
  rcases rName.run (c :: s2) with _ | ⟨dn, s3⟩
  · rfl
  rstep
  generalize hX : StateT.run _ s3 = X
  have hXd : X = doffP s3 := by
    rw [← hX]
    rcases s3 with _ | ⟨c, s4⟩
    · simp only [StateT.run_bind, Option.bind_eq_bind, StateT.run_pure, doffP, List.head?_nil, reduceCtorEq, if_false]
      rfl
    by_cases h44 : c = 44
    · subst h44
      simp only [doffP, List.head?_cons, if_true, StateT.run_pure, Option.pure_def, Option.bind_some]
    · mred [h44]
      have : ¬ some c = some 44 := by simpa using h44
      simp only [doffP, List.head?_cons, this, if_false, StateT.run_bind, Option.bind_eq_bind, StateT.run_pure]
      rfl
  rw [hXd]
  rcases doffP s3 with _ | ⟨doff, s4⟩
  · rfl
  rstep
  rcases (rByte 44).run s4 with _ | ⟨u, s5⟩
  · rfl
  rstep
  rcases rRule.run s5 with _ | ⟨r1, s6⟩
  · rfl
  rstep
  rcases (rByte 44).run s6 with _ | ⟨u, s7⟩
  · rfl
  rstep
  rcases rRule.run s7 with _ | ⟨r2, s8⟩
  · rfl
  rstep
  rcases s8 with _ | ⟨c, s8⟩
  · rcases r1 with ⟨d1, _ | t1⟩ <;> rcases r2 with ⟨d2, _ | t2⟩ <;> simp [signOk, pure]
  · simp [pure]

theorem dstP_some_iff (s2 : Bytes) (d : DstAst) (s8 : Bytes) : dstP s2 = some (d, s8) ↔
    ∃ s3 s4 s5 s6 s7, rName.run s2 = some (d.name, s3) ∧ doffP s3 = some (d.offset, s4) ∧
      (rByte 44).run s4 = some ((), s5) ∧ rRule.run s5 = some (d.start, s6) ∧
      (rByte 44).run s6 = some ((), s7) ∧ rRule.run s7 = some (d.stop, s8) := by
  unfold dstP
  rcases d with ⟨dn, doff, r1, r2⟩
  constructor
  · intro h
    simp only [Option.bind_eq_some_iff, Option.some.injEq, Prod.mk.injEq, DstAst.mk.injEq] at h
    obtain ⟨⟨n', s3⟩, h3, ⟨o', s4⟩, h4, ⟨u5, s5⟩, h5, ⟨a', s6⟩, h6, ⟨u7, s7⟩, h7, ⟨b', s8'⟩, h8, ⟨e1, e2, e3, e4⟩, e5⟩ := h
    simp only at e1 e2 e3 e4 e5 h4 h5 h6 h7 h8
    subst e1 e2 e3 e4 e5
    exact ⟨s3, s4, s5, s6, s7, h3, h4, h5, h6, h7, h8⟩
  · rintro ⟨s3, s4, s5, s6, s7, h3, h4, h5, h6, h7, h8⟩
    simp only [h3, h4, h5, h6, h7, h8, Option.bind_some]

theorem readTz_some_iff (ext : Bool) (b : Bytes) (t : TzAst) : readTz ext b = some t ↔
    ∃ s1 s2, rName.run b = some (t.name, s1) ∧ rSigned.run s1 = some (t.offset, s2) ∧
      ((s2 = [] ∧ t.dst = none) ∨
       (s2 ≠ [] ∧ ∃ d, dstP s2 = some (d, []) ∧ t.dst = some d ∧ signOk ext d.start = true ∧ signOk ext d.stop = true)) := by
  rw [readTz_eq]
  rcases t with ⟨tn, to, td⟩
  constructor
  · intro h
    simp only [Option.bind_eq_some_iff] at h
    obtain ⟨⟨n, s1⟩, h1, ⟨o, s2⟩, h2, h⟩ := h
    simp only at h h2
    refine ⟨s1, s2, ?_⟩
    split at h
    · rename_i hs
      simp only [Option.some.injEq, TzAst.mk.injEq] at h
      obtain ⟨e1, e2, e3⟩ := h
      subst e1 e2 e3
      exact ⟨h1, h2, Or.inl ⟨hs, rfl⟩⟩
    · rename_i hs
      simp only [Option.bind_eq_some_iff] at h
      obtain ⟨⟨d, s8⟩, hd, h⟩ := h
      simp only at h
      split at h
      · rename_i hc
        simp only [Option.some.injEq, TzAst.mk.injEq] at h
        obtain ⟨e1, e2, e3⟩ := h
        subst e1 e2 e3
        obtain ⟨c1, c2, c3⟩ := hc
        change s8 = [] at c1
        subst c1
        exact ⟨h1, h2, Or.inr ⟨hs, d, hd, rfl, c2, c3⟩⟩
      · cases h
  · rintro ⟨s1, s2, h1, h2, ⟨hs, hd⟩ | ⟨hs, d, hd, htd, c2, c3⟩⟩
    · simp only at h1 h2 hd
      subst hd
      simp [h1, h2, hs]
    · simp only at h1 h2 htd
      subst htd
      simp [h1, h2, hs, hd, c2, c3]


/-! ### using the per-nonterminal equations in either direction -/

theorem ok_of_eq {ε α β : Type} {a : Except ε (β × Bytes)} {q : Option (α × Bytes)} {ok : α → Bool} {f : α → β}
    (h : a.toOption = q.bind (fun p => if ok p.1 then some (f p.1, p.2) else none))
    {v : β} {c : Bytes} (ha : a = .ok (v, c)) : ∃ d, q = some (d, c) ∧ ok d = true ∧ v = f d := by
  rcases cases_of_eq a q ok f h with ⟨e, he, _⟩ | ⟨d, r, hp, hr, hk⟩
  · rw [he] at ha; cases ha
  · rw [hp] at ha
    cases ha
    exact ⟨d, hr, hk, rfl⟩

theorem eq_ok_of {ε α β : Type} {a : Except ε (β × Bytes)} {q : Option (α × Bytes)} {ok : α → Bool} {f : α → β}
    (h : a.toOption = q.bind (fun p => if ok p.1 then some (f p.1, p.2) else none))
    {d : α} {c : Bytes} (hq : q = some (d, c)) (hk : ok d = true) : a = .ok (f d, c) := by
  rcases cases_of_eq a q ok f h with ⟨e, _, hn | ⟨d', r, hr, hk'⟩⟩ | ⟨d', r, hp, hr, _⟩
  · rw [hn] at hq; cases hq
  · rw [hr] at hq; cases hq; rw [hk] at hk'; cases hk'
  · rw [hr] at hq; cases hq; exact hp

theorem readTag_ok {c : Bytes} {t : Nat} {r : Bytes} (h : readTag c [t] = .ok r) : c = t :: r := by
  rcases c with _ | ⟨d, c⟩
  · rw [readTag_nil] at h; cases h
  · by_cases hd : d = t
    · subst hd; rw [readTag_self] at h; cases h; rfl
    · rw [readTag_ne _ _ _ hd] at h; cases h

theorem signOk_of_ruleTimeOk (ext : Bool) (x : RuleAst) (h : ruleTimeOk ext x.time = true) : signOk ext x = true := by
  rcases x with ⟨d, _ | t⟩
  · simp [signOk]
  · simp only [ruleTimeOk, Bool.and_eq_true] at h
    simpa [signOk] using h.2

def doffOk : Option Signed → Bool
  | none => true
  | some o => hmsOk 24 o.hms

/-- the DST offset in the code's west-positive terms -/
def doffVal (std : Int) : Option Signed → Int
  | none => std - 3600
  | some o => signedSeconds o


theorem parseOffset_ok {s : Bytes} {v : Int} {c : Bytes} (h : parseOffset s = .ok (v, c)) :
    ∃ d, rSigned.run s = some (d, c) ∧ hmsOk 24 d.hms = true ∧ v = signedSeconds d :=
  ok_of_eq (ok := fun (x : Signed) => hmsOk 24 x.hms) (f := signedSeconds) (parseOffset_eq s) h

theorem parseOffset_of {s : Bytes} {d : Signed} {c : Bytes} (hq : rSigned.run s = some (d, c))
    (hk : hmsOk 24 d.hms = true) : parseOffset s = .ok (signedSeconds d, c) :=
  eq_ok_of (ok := fun (x : Signed) => hmsOk 24 x.hms) (f := signedSeconds) (parseOffset_eq s) hq hk

theorem parseRuleBlock_ok {ext : Bool} {s : Bytes} {v : RuleDay × Int} {c : Bytes} (h : parseRuleBlock s ext = .ok (v, c)) :
    ∃ d, rRule.run s = some (d, c) ∧ (dayOk d.day && ruleTimeOk ext d.time) = true ∧
      v = (dayDenote d.day, ruleTime d.time) :=
  ok_of_eq (ok := fun (x : RuleAst) => dayOk x.day && ruleTimeOk ext x.time) (f := fun (x : RuleAst) => (dayDenote x.day, ruleTime x.time))
    (parseRuleBlock_eq ext s) h

theorem parseRuleBlock_of {ext : Bool} {s : Bytes} {d : RuleAst} {c : Bytes} (hq : rRule.run s = some (d, c))
    (hk : (dayOk d.day && ruleTimeOk ext d.time) = true) :
    parseRuleBlock s ext = .ok ((dayDenote d.day, ruleTime d.time), c) :=
  eq_ok_of (ok := fun (x : RuleAst) => dayOk x.day && ruleTimeOk ext x.time) (f := fun (x : RuleAst) => (dayDenote x.day, ruleTime x.time))
    (parseRuleBlock_eq ext s) hq hk


/-! ### the two directions -/

theorem parse_ok_imp (ext : Bool) (b : Bytes) (r : TransitionRule) (h : parsePosixTz b ext = .ok r) :
    ∃ t p, readTz ext b = some t ∧ denoteParts ext t = some p ∧ build p = some r := by
  unfold parsePosixTz at h
  rcases hp1 : parseTimeZoneDesignation b with e | ⟨n, s1⟩
  · rw [hp1] at h; simp at h
  rw [hp1] at h
  simp only at h
  rcases cases_of_eq _ _ (fun x => hmsOk 24 x.hms) signedSeconds (parseOffset_eq s1) with
    ⟨e, he, _⟩ | ⟨o, s2, hp2, hr2, hk2⟩
  · rw [he] at h; simp at h
  rw [hp2] at h
  simp only at h
  have hb := signedSeconds_bound o hk2
  rcases s2 with _ | ⟨c2, s2⟩
  · simp only [List.isEmpty_nil, if_true] at h
    rcases ltt_new_cases (-signedSeconds o) false n (by unfold i32Min; omega) with ⟨hv, hl⟩ | ⟨hv, e, hl⟩
    · rw [hl] at h
      simp only [Except.ok.injEq] at h
      refine ⟨{ name := n, offset := o, dst := none },
        .fixed { utOffset := -signedSeconds o, isDst := false, name := some n }, ?_, ?_, ?_⟩
      · exact (readTz_some_iff _ _ _).mpr ⟨s1, [], rName_of_model hp1 (ne_nil_of_nameValid hv), hr2, Or.inl ⟨rfl, rfl⟩⟩
      · simp [denoteParts, hk2, hv]
      · rw [← h]; rfl
    · rw [hl] at h; simp at h
  simp only [List.isEmpty_cons, Bool.false_eq_true, if_false] at h
  generalize hs2 : c2 :: s2 = s2' at h hr2 hp2
  have hs2ne : s2' ≠ [] := by rw [← hs2]; simp
  rcases hp3 : parseTimeZoneDesignation s2' with e | ⟨dn, s3⟩
  · rw [hp3] at h; simp at h
  rw [hp3] at h
  simp only at h
  split at h
  · cases h
  rename_i _ dstOffset c4 heq
  have hdo : ∃ doff, doffP s3 = some (doff, c4) ∧ doffOk doff = true ∧ dstOffset = doffVal (signedSeconds o) doff := by
    rcases s3 with _ | ⟨c3, s3⟩
    · simp at heq
    by_cases h44 : c3 = 44
    · subst h44
      simp only [Except.ok.injEq, Prod.mk.injEq] at heq
      obtain ⟨e1, e2⟩ := heq
      subst e2
      exact ⟨none, by simp [doffP], rfl, by rw [← e1]; rfl⟩
    · mred [h44] at heq
      rcases hpo : parseOffset (c3 :: s3) with e | ⟨v, c⟩
      · rw [hpo] at heq; simp [liftStr] at heq
      · rw [hpo] at heq
        simp only [liftStr, Except.ok.injEq, Prod.mk.injEq] at heq
        obtain ⟨e1, e2⟩ := heq
        subst e1 e2
        obtain ⟨d, hq, hk, hv⟩ := parseOffset_ok hpo
        have : ¬ some c3 = some 44 := by simpa using h44
        exact ⟨some d, by simp [doffP, this, hq], hk, hv⟩
  clear heq
  obtain ⟨doff, hq4, hk4, hv4⟩ := hdo
  split at h
  · cases h
  split at h
  · cases h
  rename_i _ c5 heq5
  have h5 := readTag_ok heq5
  split at h
  · cases h
  rename_i _ dstStart dstStartTime c6 heq6
  obtain ⟨x1, hq6, hk6, hv6⟩ := parseRuleBlock_ok heq6
  split at h
  · cases h
  rename_i _ c7 heq7
  have h7 := readTag_ok heq7
  split at h
  · cases h
  rename_i _ dstEnd dstEndTime c8 heq8
  obtain ⟨x2, hq8, hk8, hv8⟩ := parseRuleBlock_ok heq8
  split at h
  · cases h
  rename_i hc8
  have hc8' : c8 = [] := by
    rcases c8 with _ | ⟨_, _⟩
    · rfl
    · simp at hc8
  subst hc8'
  cases hv6
  cases hv8
  subst h5 h7 hv4
  have hb4 : -100000 < doffVal (signedSeconds o) doff ∧ doffVal (signedSeconds o) doff < 100000 := by
    rcases doff with _ | o2
    · simp only [doffVal]; omega
    · have := signedSeconds_bound o2 hk4
      simp only [doffVal]; omega
  rcases ltt_new_cases (-signedSeconds o) false n (by unfold i32Min; omega) with ⟨hv, hl⟩ | ⟨hv, e, hl⟩
  case inr => rw [hl] at h; cases h
  rw [hl] at h
  simp only at h
  rcases ltt_new_cases (-doffVal (signedSeconds o) doff) true dn (by unfold i32Min; omega) with ⟨hv', hl'⟩ | ⟨hv', e, hl'⟩
  case inr => rw [hl'] at h; cases h
  rw [hl'] at h
  simp only at h
  split at h
  · cases h
  rename_i _ a heqa
  simp only [Except.ok.injEq] at h
  simp only [Bool.and_eq_true] at hk6 hk8
  refine ⟨{ name := n, offset := o, dst := some { name := dn, offset := doff, start := x1, stop := x2 } },
    .alternate { utOffset := -signedSeconds o, isDst := false, name := some n }
      { utOffset := -doffVal (signedSeconds o) doff, isDst := true, name := some dn }
      (dayDenote x1.day) (ruleTime x1.time) (dayDenote x2.day) (ruleTime x2.time), ?_, ?_, ?_⟩
  · refine (readTz_some_iff _ _ _).mpr ⟨s1, s2', rName_of_model hp1 (ne_nil_of_nameValid hv), hr2, Or.inr ⟨hs2ne, _, ?_, rfl,
      signOk_of_ruleTimeOk _ _ hk6.2, signOk_of_ruleTimeOk _ _ hk8.2⟩⟩
    exact (dstP_some_iff _ _ _).mpr ⟨s3, _, _, _, _, rName_of_model hp3 (ne_nil_of_nameValid hv'), hq4, rByte_run_self _ _, hq6, rByte_run_self _ _, hq8⟩
  · rcases doff with _ | o2
    · simp only [denoteParts, hk2, hv, hv', hk6.1, hk6.2, hk8.1, hk8.2, Bool.and_self, Bool.not_true,
        Bool.false_eq_true, if_false, doffVal, Option.some.injEq, Parts.alternate.injEq, LocalTimeType.mk.injEq,
        and_true, true_and]
      omega
    · have hk4' : hmsOk 24 o2.hms = true := hk4
      simp only [denoteParts, hk2, hv, hv', hk6.1, hk6.2, hk8.1, hk8.2, hk4', Bool.and_self, Bool.not_true,
        Bool.false_eq_true, if_false, doffVal]
  · simp only [build, heqa, h]

theorem rByte_run_some {t : Nat} {s r : Bytes} (h : (rByte t).run s = some ((), r)) : s = t :: r := by
  rcases s with _ | ⟨c, s⟩
  · rw [rByte_run_nil] at h; cases h
  · rw [rByte_run_cons] at h
    split at h
    · rename_i hc; cases h; rw [hc]
    · cases h

theorem denoteParts_dst {ext : Bool} {n : Bytes} {o : Signed} {dn : Bytes} {doff : Option Signed} {x1 x2 : RuleAst}
    {p : Parts}
    (h : denoteParts ext { name := n, offset := o, dst := some { name := dn, offset := doff, start := x1, stop := x2 } } = some p) :
    doffOk doff = true ∧ nameValid dn = true ∧ dayOk x1.day = true ∧ dayOk x2.day = true ∧
    ruleTimeOk ext x1.time = true ∧ ruleTimeOk ext x2.time = true ∧
    p = .alternate { utOffset := -signedSeconds o, isDst := false, name := some n }
      { utOffset := -doffVal (signedSeconds o) doff, isDst := true, name := some dn }
      (dayDenote x1.day) (ruleTime x1.time) (dayDenote x2.day) (ruleTime x2.time) := by
  unfold denoteParts at h
  simp only at h
  split at h
  · cases h
  rcases doff with _ | o2
  · simp only at h
    split at h
    · cases h
    rename_i hc2
    simp only [Bool.not_eq_true', Bool.not_eq_false, Bool.and_eq_true] at hc2
    obtain ⟨⟨⟨⟨⟨_, hv'⟩, hd1⟩, hd2⟩, ht1⟩, ht2⟩ := hc2
    simp only [Option.some.injEq] at h
    refine ⟨rfl, hv', hd1, hd2, ht1, ht2, ?_⟩
    rw [← h]
    simp only [doffVal, Parts.alternate.injEq, LocalTimeType.mk.injEq, and_true, true_and]
    omega
  · simp only at h
    split at h
    · cases h
    rename_i hc2
    simp only [Bool.not_eq_true', Bool.not_eq_false, Bool.and_eq_true] at hc2
    obtain ⟨⟨⟨⟨⟨hk4, hv'⟩, hd1⟩, hd2⟩, ht1⟩, ht2⟩ := hc2
    simp only [Option.some.injEq] at h
    exact ⟨hk4, hv', hd1, hd2, ht1, ht2, h.symm⟩

theorem rSigned_run_nil : rSigned.run [] = none := by
  rw [rSigned_run_other [] (by simp) (by simp)]
  unfold rHms
  simp only [StateT.run_bind, rNum_run]
  rfl

theorem parse_of_ref (ext : Bool) (b : Bytes) (t : TzAst) (p : Parts) (r : TransitionRule)
    (h1 : readTz ext b = some t) (h2 : denoteParts ext t = some p) (h3 : build p = some r) :
    parsePosixTz b ext = .ok r := by
  obtain ⟨s1, s2, hn, ho, hrest⟩ := (readTz_some_iff _ _ _).mp h1
  rcases t with ⟨n, o, td⟩
  simp only at hn ho hrest
  have h2' := h2
  unfold denoteParts at h2
  simp only at h2
  split at h2
  · cases h2
  rename_i hc1
  have hk2 : hmsOk 24 o.hms = true ∧ nameValid n = true := by simpa using hc1
  have hb := signedSeconds_bound o hk2.1
  unfold parsePosixTz
  have e1 : parseTimeZoneDesignation b = .ok (n, s1) := model_of_rName hn
  rw [e1]
  simp only
  rw [parseOffset_of ho hk2.1]
  simp only
  have hstd : LocalTimeType.new (-signedSeconds o) false (some n) =
      .ok { utOffset := -signedSeconds o, isDst := false, name := some n } := by
    rcases ltt_new_cases (-signedSeconds o) false n (by unfold i32Min; omega) with ⟨_, hl⟩ | ⟨hv, _⟩
    · exact hl
    · rw [hk2.2] at hv; cases hv
  rcases hrest with ⟨hs, hd⟩ | ⟨hs, d, hd, htd, c2, c3⟩
  · subst hs hd
    simp only [Option.some.injEq] at h2
    subst h2
    simp only [build, Option.some.injEq] at h3
    simp only [List.isEmpty_nil, if_true, hstd, h3]
  · subst htd
    have hs' : List.isEmpty s2 = false := by
      rcases s2 with _ | ⟨c, s2⟩
      · exact absurd rfl hs
      · rfl
    rw [hs']
    simp only [Bool.false_eq_true, if_false]
    obtain ⟨s3, s4, s5, s6, s7, hq3, hq4, hq5, hq6, hq7, hq8⟩ := (dstP_some_iff _ _ _).mp hd
    rcases d with ⟨dn, doff, x1, x2⟩
    simp only at hq3 hq4 hq6 hq8 c2 c3
    obtain ⟨hk4, hv', hd1, hd2, ht1, ht2, hp⟩ := denoteParts_dst h2'
    subst hp
    have e3 : parseTimeZoneDesignation s2 = .ok (dn, s3) := model_of_rName hq3
    rw [e3]
    simp only
    have h5 := rByte_run_some hq5
    have h7 := rByte_run_some hq7
    subst h5 h7
    have hs3 : (s3 = 44 :: s5 ∧ doff = none) ∨
        (∃ c3 s3' o2, s3 = c3 :: s3' ∧ c3 ≠ 44 ∧ doff = some o2 ∧
          parseOffset s3 = .ok (signedSeconds o2, 44 :: s5)) := by
      rcases s3 with _ | ⟨c3, s3'⟩
      · simp only [doffP, List.head?_nil, reduceCtorEq, if_false, rSigned_run_nil, Option.bind_none] at hq4
      by_cases h44 : c3 = 44
      · subst h44
        simp only [doffP, List.head?_cons, if_true, Option.some.injEq, Prod.mk.injEq] at hq4
        left
        rw [← hq4.1, hq4.2]
        exact ⟨rfl, rfl⟩
      · right
        have : ¬ some c3 = some 44 := by simpa using h44
        simp only [doffP, List.head?_cons, this, if_false, Option.bind_eq_some_iff, Option.some.injEq,
          Prod.mk.injEq] at hq4
        obtain ⟨⟨o2, s4'⟩, hq, e1, e2⟩ := hq4
        simp only at e1 e2
        subst e1 e2
        exact ⟨c3, s3', o2, rfl, h44, rfl, parseOffset_of hq hk4⟩
    have hdv : ∃ dstOffset, dstOffset = doffVal (signedSeconds o) doff := ⟨_, rfl⟩
    split
    · rename_i _ e heq
      exfalso
      rcases hs3 with ⟨e1, e2⟩ | ⟨c3, s3', o2, e1, h44, e2, hpo⟩
      · subst e1; cases heq
      · subst e1
        mred [h44] at heq
        rw [hpo] at heq
        cases heq
    rename_i _ dstOffset c4 heq
    have this : dstOffset = doffVal (signedSeconds o) doff ∧ c4 = 44 :: s5 := by
      rcases hs3 with ⟨e1, e2⟩ | ⟨c3, s3', o2, e1, h44, e2, hpo⟩
      · subst e1 e2
        simp only [Except.ok.injEq, Prod.mk.injEq] at heq
        exact ⟨heq.1.symm, heq.2.symm⟩
      · subst e1 e2
        mred [h44] at heq
        rw [hpo] at heq
        simp only [liftStr, Except.ok.injEq, Prod.mk.injEq] at heq
        exact ⟨heq.1.symm, heq.2.symm⟩
    obtain ⟨e1, e2⟩ := this
    subst e1 e2
    simp only [List.isEmpty_cons, Bool.false_eq_true, if_false, readTag_self,
      parseRuleBlock_of hq6 (by rw [hd1, ht1]; rfl), parseRuleBlock_of hq8 (by rw [hd2, ht2]; rfl),
      List.isEmpty_nil, Bool.not_true, hstd]
    have hb4 : -100000 < doffVal (signedSeconds o) doff ∧ doffVal (signedSeconds o) doff < 100000 := by
      rcases doff with _ | o2
      · simp only [doffVal]; omega
      · have := signedSeconds_bound o2 hk4
        simp only [doffVal]; omega
    have hdst : LocalTimeType.new (-doffVal (signedSeconds o) doff) true (some dn) =
        .ok { utOffset := -doffVal (signedSeconds o) doff, isDst := true, name := some dn } := by
      rcases ltt_new_cases (-doffVal (signedSeconds o) doff) true dn (by unfold i32Min; omega) with ⟨_, hl⟩ | ⟨hv, _⟩
      · exact hl
      · rw [hv'] at hv; cases hv
    simp only [hdst]
    simp only [build] at h3
    split at h3
    · rename_i a ha
      simp only [Option.some.injEq] at h3
      simp only [ha, h3]
    · cases h3

end TzVerif.Proofs.TzParseNT
