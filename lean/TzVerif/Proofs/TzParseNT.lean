/-
C09 part 2, helper lemmas: every nonterminal of the code's parser (model) equals the reference reader of the
same nonterminal followed by the range checks of `Spec.denoteParts`.
-/
import TzVerif.Model.TzFile
import TzVerif.Spec.TzGrammar

namespace TzVerif.Proofs.TzParseNT
open TzVerif.Model TzVerif.Spec TzVerif.Gen
set_option linter.unusedSimpArgs false

theorem toOption_eq_some {ε α} {a : Except ε α} {v : α} : a.toOption = some v ↔ a = .ok v := by
  cases a <;> simp [Except.toOption]

theorem toOption_eq_none {ε α} {a : Except ε α} : a.toOption = none ↔ ∃ e, a = .error e := by
  cases a <;> simp [Except.toOption]

/-! ### the reference reader as plain functions -/

theorem run_failure {α} (s : Bytes) : (failure : R α).run s = none := rfl

theorem rNum_run (s : Bytes) : rNum.run s =
    if (s.takeWhile isAsciiDigit).isEmpty then none
    else some (digitsValue (s.takeWhile isAsciiDigit), s.dropWhile isAsciiDigit) := by
  simp only [rNum, StateT.run_bind, StateT.run_get, StateT.run_set, StateT.run_pure, pure_bind]
  split
  · simp only [StateT.run_bind, run_failure]; rfl
  · simp only [StateT.run_bind, StateT.run_get, StateT.run_set, StateT.run_pure, pure_bind]
    rfl

theorem rByte_run_nil (c : Nat) : (rByte c).run [] = none := by
  simp only [rByte, StateT.run_bind, StateT.run_get, StateT.run_set, StateT.run_pure, pure_bind]
  rfl

theorem rByte_run_cons (c b : Nat) (r : Bytes) : (rByte c).run (b :: r) = if b = c then some ((), r) else none := by
  simp only [rByte, StateT.run_bind, StateT.run_get, StateT.run_set, StateT.run_pure, pure_bind]
  split <;> rfl

theorem rByte_run_self (c : Nat) (r : Bytes) : (rByte c).run (c :: r) = some ((), r) := by
  rw [rByte_run_cons, if_pos rfl]

theorem rByte_run_ne (c b : Nat) (r : Bytes) (h : b ≠ c) : (rByte c).run (b :: r) = none := by
  rw [rByte_run_cons, if_neg h]

theorem spanWhile_eq (f : Nat → Bool) (s : Bytes) : spanWhile f s = (s.takeWhile f, s.dropWhile f) := by
  induction s with
  | nil => rfl
  | cons b bs ih =>
    unfold spanWhile
    by_cases h : f b <;> simp [h, ih, List.takeWhile, List.dropWhile]

/-- the model's "digit run, then `str::parse`" step in terms of the reference's `rNum` -/
theorem parseInt_run (max : Nat) (s : Bytes) :
    parseInt max (s.takeWhile isAsciiDigit) =
      match rNum.run s with
      | none => .error .parseInt
      | some (v, _) => if max < v then .error .parseInt else .ok (v : Int) := by
  rw [rNum_run]
  unfold parseInt
  split <;> simp_all

theorem rNum_run_snd {s : Bytes} {v : Nat} {r : Bytes} (h : rNum.run s = some (v, r)) :
    s.dropWhile isAsciiDigit = r := by
  rw [rNum_run] at h
  split at h <;> simp_all

/-- simp set that runs one step of a `do` block of the reference reader -/
macro "rstep" : tactic => `(tactic|
  simp only [readOptionalTag, if_true, rByte_run_self, StateT.run_bind, Option.bind_eq_bind, Option.bind_some,
    Option.bind_none, StateT.run_get, StateT.run_pure, pure_bind])

/-- reduce a `match` on a cursor `c :: r` with literal patterns, given `c ≠ literal` facts -/
syntax "mred" " [" Lean.Parser.Tactic.simpLemma,* "]" (Lean.Parser.Tactic.location)? : tactic
macro_rules
  | `(tactic| mred [$ts,*] $[$loc]?) => `(tactic|
      simp only [$ts,*, List.cons.injEq, false_and, not_false_eq_true, implies_true, imp_self, forall_const,
        reduceCtorEq] $[$loc]?)

/-! ### hh[:mm[:ss]] -/

def hmsChk : Hms × Bytes → Option ((Int × Int × Int) × Bytes) := fun (x, r) =>
  if x.h ≤ maxI32 ∧ x.m ≤ maxI32 ∧ x.s ≤ maxI32 then some (((x.h : Int), (x.m : Int), (x.s : Int)), r) else none

theorem parseHhmmss_eq (s : Bytes) : (parseHhmmss s).toOption = (rHms.run s).bind hmsChk := by
  simp only [parseHhmmss, readWhile, spanWhile_eq, parseInt_run, rHms, StateT.run_bind, StateT.run_get,
    StateT.run_set, StateT.run_pure, pure_bind]
  rcases h1 : rNum.run s with _ | ⟨h, s1⟩
  · rfl
  cases rNum_run_snd h1
  simp only [Option.bind_eq_bind, Option.bind_some]
  generalize List.dropWhile isAsciiDigit s = s1
  rcases s1 with _ | ⟨c, s2⟩
  · by_cases hh : maxI32 < h <;> simp [readOptionalTag, Except.toOption, hmsChk, hh] <;> omega
  by_cases hc : c = 58
  · subst hc
    rstep
    rcases h2 : rNum.run s2 with _ | ⟨m, s3⟩
    · by_cases hh : maxI32 < h <;> simp [Except.toOption, hh]
    cases rNum_run_snd h2
    simp only [Option.bind_eq_bind, Option.bind_some]
    generalize List.dropWhile isAsciiDigit s2 = s3
    rcases s3 with _ | ⟨c, s4⟩
    · by_cases hh : maxI32 < h <;> by_cases hm : maxI32 < m <;> simp [Except.toOption, hmsChk, hh, hm] <;> omega
    by_cases hc : c = 58
    · subst hc
      rstep
      rcases h3 : rNum.run s4 with _ | ⟨sec, s5⟩
      · by_cases hh : maxI32 < h <;> by_cases hm : maxI32 < m <;> simp [Except.toOption, hh, hm]
      · cases rNum_run_snd h3
        by_cases hh : maxI32 < h <;> by_cases hm : maxI32 < m <;> by_cases hs : maxI32 < sec <;>
          simp [Except.toOption, hmsChk, hh, hm, hs] <;> omega
    · by_cases hh : maxI32 < h <;> by_cases hm : maxI32 < m <;> simp [Except.toOption, hmsChk, hh, hm, hc] <;> omega
  · by_cases hh : maxI32 < h <;> simp [readOptionalTag, hc, Except.toOption, hmsChk, hh] <;> omega

/-! ### [+|-]hh[:mm[:ss]] -/

def sgnChk : Signed × Bytes → Option ((Int × Int × Int × Int) × Bytes) := fun (x, r) =>
  (hmsChk (x.hms, r)).map fun (v, r) => ((if x.sign = some true then -1 else 1, v), r)

theorem parseSignedHhmmss_eq (s : Bytes) : (parseSignedHhmmss s).toOption = (rSigned.run s).bind sgnChk := by
  unfold parseSignedHhmmss rSigned
  simp only [StateT.run_bind, StateT.run_get, pure_bind]
  have key : ∀ (r : Bytes) (sign : Int) (sg : Option Bool), sign = (if sg = some true then -1 else 1) →
      (match parseHhmmss r with
        | .error e => (.error e : Except TzStringError ((Int × Int × Int × Int) × Bytes))
        | .ok ((h, m, s), c) => .ok ((sign, h, m, s), c)).toOption =
      ((rHms.run r).bind fun p => some (({ sign := sg, hms := p.fst } : Signed), p.snd)).bind sgnChk := by
    intro r sign sg hsg
    have hq := parseHhmmss_eq r
    rcases hp : parseHhmmss r with e | ⟨⟨h, m, s⟩, c⟩
    · rw [hp] at hq
      rcases hr : rHms.run r with _ | ⟨x, r'⟩
      · rfl
      · rw [hr] at hq
        simp only [Except.toOption, Option.bind_some] at hq
        simp [Except.toOption, sgnChk, ← hq]
    · rw [hp] at hq
      rcases hr : rHms.run r with _ | ⟨x, r'⟩
      · rw [hr] at hq; simp [Except.toOption] at hq
      · rw [hr] at hq
        simp only [Except.toOption, Option.bind_some] at hq
        simp [Except.toOption, sgnChk, ← hq, hsg]
  rcases s with _ | ⟨c, r⟩
  · rstep
    exact key [] 1 none rfl
  by_cases h43 : c = 43
  · subst h43
    rstep
    exact key r 1 (some false) rfl
  by_cases h45 : c = 45
  · subst h45
    rstep
    exact key r (-1) (some true) rfl
  · mred [h43, h45]
    rstep
    exact key (c :: r) 1 none rfl

/-! ### range checks on h, m, s -/

theorem range3 {α ε} (hmax : Nat) (L H : Int) (hL : L ≤ 0) (hH : H = hmax) (h m s : Nat) (A : α) (e1 e2 e3 : ε) :
    (if !(decide (L ≤ (h : Int)) && decide ((h : Int) ≤ H)) then (.error e1 : Except ε α)
     else if !(decide (0 ≤ (m : Int)) && decide ((m : Int) ≤ 59)) then .error e2
     else if !(decide (0 ≤ (s : Int)) && decide ((s : Int) ≤ 59)) then .error e3
     else .ok A).toOption = if hmsOk hmax ⟨h, m, s⟩ then some A else none := by
  subst hH
  have h0 : L ≤ (h : Int) := by omega
  by_cases c1 : (h : Int) ≤ (hmax : Int) <;> by_cases c2 : (59 : Int) < (m : Int) <;> by_cases c3 : (59 : Int) < (s : Int) <;>
    simp only [hmsOk, Except.toOption, c1, c2, c3, h0, decide_true, decide_false, Bool.and_true, Bool.and_false,
      Bool.not_true, Bool.not_false, Bool.false_eq_true, if_true, if_false, Int.not_lt] <;>
    simp [c1, c2, c3] <;> omega

def offChk (hmax : Nat) : Signed × Bytes → Option (Int × Bytes) := fun p =>
  if hmsOk hmax p.1.hms then some (signedSeconds p.1, p.2) else none

/-- what a successful / failed `parseSignedHhmmss` says about the reference reader -/
theorem parseSigned_cases (s : Bytes) :
    (∃ e, parseSignedHhmmss s = .error e ∧
      (rSigned.run s = none ∨ ∃ x r, rSigned.run s = some (x, r) ∧ ¬ (x.hms.h ≤ maxI32 ∧ x.hms.m ≤ maxI32 ∧ x.hms.s ≤ maxI32))) ∨
    (∃ x r, parseSignedHhmmss s = .ok ((if x.sign = some true then -1 else 1, x.hms.h, x.hms.m, x.hms.s), r) ∧
      rSigned.run s = some (x, r) ∧ x.hms.h ≤ maxI32 ∧ x.hms.m ≤ maxI32 ∧ x.hms.s ≤ maxI32) := by
  have hq := parseSignedHhmmss_eq s
  rcases hp : parseSignedHhmmss s with e | ⟨⟨sign, h, m, sec⟩, c⟩
  · left
    refine ⟨e, rfl, ?_⟩
    rw [hp] at hq
    rcases hr : rSigned.run s with _ | ⟨x, r⟩
    · exact Or.inl rfl
    · right
      rw [hr] at hq
      refine ⟨x, r, rfl, ?_⟩
      simp [Except.toOption, sgnChk, hmsChk] at hq
      omega
  · right
    rw [hp] at hq
    rcases hr : rSigned.run s with _ | ⟨x, r⟩
    · rw [hr] at hq; simp [Except.toOption] at hq
    · rw [hr] at hq
      simp [Except.toOption, sgnChk, hmsChk] at hq
      obtain ⟨hb, ⟨h1, h2, h3, h4⟩, h5⟩ := hq
      subst h1 h2 h3 h4 h5
      exact ⟨x, c, rfl, rfl, hb⟩

theorem sgn_val (x : Signed) :
    (if x.sign = some true then (-1 : Int) else 1) * ((x.hms.h : Int) * 3600 + (x.hms.m : Int) * 60 + (x.hms.s : Int)) =
      signedSeconds x := by
  unfold signedSeconds hmsSeconds
  split <;> omega

theorem parseOffset_eq (s : Bytes) : (parseOffset s).toOption = (rSigned.run s).bind (offChk 24) := by
  unfold parseOffset
  rcases parseSigned_cases s with ⟨e, he, hr | ⟨x, r, hr, hb⟩⟩ | ⟨x, r, hp, hr, hb⟩
  · rw [he, hr]; rfl
  · rw [he, hr]
    have hk : hmsOk 24 x.hms = false := by
      unfold maxI32 at hb
      simp only [hmsOk, decide_eq_false_iff_not]
      omega
    simp [Except.toOption, offChk, hk]
  · rw [hp, hr]
    simp only [Option.bind_some, offChk, sgn_val]
    exact range3 24 0 guardOffsetHourMax (by decide) rfl _ _ _ _ _ _ _

theorem parseRuleTimeExtended_eq (s : Bytes) :
    (parseRuleTimeExtended s).toOption = (rSigned.run s).bind (offChk 167) := by
  unfold parseRuleTimeExtended
  rcases parseSigned_cases s with ⟨e, he, hr | ⟨x, r, hr, hb⟩⟩ | ⟨x, r, hp, hr, hb⟩
  · rw [he, hr]; rfl
  · rw [he, hr]
    have hk : hmsOk 167 x.hms = false := by
      unfold maxI32 at hb
      simp only [hmsOk, decide_eq_false_iff_not]
      omega
    simp [Except.toOption, offChk, hk]
  · rw [hp, hr]
    simp only [Option.bind_some, offChk, sgn_val]
    exact range3 167 guardRuleTimeExtHourMin guardRuleTimeExtHourMax (by decide) rfl _ _ _ _ _ _ _

/-! ### rule time without extensions: no sign -/

theorem rSigned_run_plus (r : Bytes) : rSigned.run (43 :: r) =
    (rHms.run r).bind fun p => some (({ sign := some false, hms := p.fst } : Signed), p.snd) := by
  unfold rSigned
  simp only [StateT.run_bind, StateT.run_get, pure_bind]
  rstep
  rfl

theorem rSigned_run_minus (r : Bytes) : rSigned.run (45 :: r) =
    (rHms.run r).bind fun p => some (({ sign := some true, hms := p.fst } : Signed), p.snd) := by
  unfold rSigned
  simp only [StateT.run_bind, StateT.run_get, pure_bind]
  rstep
  rfl

theorem rSigned_run_other (s : Bytes) (h43 : ∀ r, s ≠ 43 :: r) (h45 : ∀ r, s ≠ 45 :: r) : rSigned.run s =
    (rHms.run s).bind fun p => some (({ sign := none, hms := p.fst } : Signed), p.snd) := by
  unfold rSigned
  simp only [StateT.run_bind, StateT.run_get, pure_bind]
  rstep
  rfl

theorem rNum_run_nondigit (c : Nat) (r : Bytes) (h : isAsciiDigit c = false) : rNum.run (c :: r) = none := by
  rw [rNum_run]
  simp [List.takeWhile, h]

theorem rHms_run_nondigit (c : Nat) (r : Bytes) (h : isAsciiDigit c = false) : rHms.run (c :: r) = none := by
  unfold rHms
  simp only [StateT.run_bind, rNum_run_nondigit c r h]
  rfl

theorem parseHhmmss_cases (s : Bytes) :
    (∃ e, parseHhmmss s = .error e ∧
      (rHms.run s = none ∨ ∃ x r, rHms.run s = some (x, r) ∧ ¬ (x.h ≤ maxI32 ∧ x.m ≤ maxI32 ∧ x.s ≤ maxI32))) ∨
    (∃ x r, parseHhmmss s = .ok (((x.h : Int), (x.m : Int), (x.s : Int)), r) ∧
      rHms.run s = some (x, r) ∧ x.h ≤ maxI32 ∧ x.m ≤ maxI32 ∧ x.s ≤ maxI32) := by
  have hq := parseHhmmss_eq s
  rcases hp : parseHhmmss s with e | ⟨⟨h, m, sec⟩, c⟩
  · left
    refine ⟨e, rfl, ?_⟩
    rw [hp] at hq
    rcases hr : rHms.run s with _ | ⟨x, r⟩
    · exact Or.inl rfl
    · right
      rw [hr] at hq
      refine ⟨x, r, rfl, ?_⟩
      simp [Except.toOption, hmsChk] at hq
      omega
  · right
    rw [hp] at hq
    rcases hr : rHms.run s with _ | ⟨x, r⟩
    · rw [hr] at hq; simp [Except.toOption] at hq
    · rw [hr] at hq
      simp [Except.toOption, hmsChk] at hq
      obtain ⟨hb, ⟨h1, h2, h3⟩, h5⟩ := hq
      subst h1 h2 h3 h5
      exact ⟨x, c, rfl, rfl, hb⟩

def timeChk (ext : Bool) : Signed × Bytes → Option (Int × Bytes) := fun p =>
  if ruleTimeOk ext (some p.1) then some (signedSeconds p.1, p.2) else none

theorem timeChk_true : timeChk true = offChk 167 := by
  funext p
  simp [timeChk, offChk, ruleTimeOk]

def hmsChk24 : Hms × Bytes → Option (Int × Bytes) := fun p =>
  if hmsOk 24 p.1 then some (hmsSeconds p.1, p.2) else none

theorem parseRuleTime_hms (s : Bytes) : (parseRuleTime s).toOption = (rHms.run s).bind hmsChk24 := by
  unfold parseRuleTime
  rcases parseHhmmss_cases s with ⟨e, he, hr | ⟨x, r, hr, hb⟩⟩ | ⟨x, r, hp, hr, hb⟩
  · rw [he, hr]; rfl
  · rw [he, hr]
    have hk : hmsOk 24 x = false := by
      unfold maxI32 at hb
      simp only [hmsOk, decide_eq_false_iff_not]
      omega
    simp [Except.toOption, hmsChk24, hk]
  · rw [hp, hr]
    simp only [Option.bind_some, hmsChk24, hmsSeconds]
    exact range3 24 0 guardRuleTimeHourMax (by decide) rfl _ _ _ _ _ _ _

theorem parseRuleTime_eq (s : Bytes) : (parseRuleTime s).toOption = (rSigned.run s).bind (timeChk false) := by
  rw [parseRuleTime_hms]
  have sign_none : ∀ (sg : Option Bool) (r : Bytes), sg ≠ none →
      ((rHms.run r).bind fun p => some (({ sign := sg, hms := p.fst } : Signed), p.snd)).bind (timeChk false) = none := by
    intro sg r hsg
    rcases rHms.run r with _ | ⟨x, r'⟩
    · rfl
    · cases sg with
      | none => exact absurd rfl hsg
      | some b => simp [timeChk, ruleTimeOk]
  have tc : ∀ q : Option (Hms × Bytes),
      (q.bind fun p => some (({ sign := none, hms := p.fst } : Signed), p.snd)).bind (timeChk false) = q.bind hmsChk24 := by
    intro q
    rcases q with _ | p
    · rfl
    · simp [timeChk, hmsChk24, ruleTimeOk, signedSeconds]
  rcases s with _ | ⟨c, r⟩
  · rw [rSigned_run_other [] (by simp) (by simp), tc]
  by_cases h43 : c = 43
  · subst h43
    rw [rSigned_run_plus, sign_none _ _ (by simp), rHms_run_nondigit 43 r (by decide)]
    rfl
  by_cases h45 : c = 45
  · subst h45
    rw [rSigned_run_minus, sign_none _ _ (by simp), rHms_run_nondigit 45 r (by decide)]
    rfl
  · rw [rSigned_run_other (c :: r) (by simp [h43]) (by simp [h45]), tc]

/-! ### names -/

theorem dropWhile_head {p : Nat → Bool} {l : List Nat} {d : Nat} {r : List Nat}
    (h : List.dropWhile p l = d :: r) : p d = false := by
  induction l with
  | nil => cases h
  | cons a l ih =>
    by_cases ha : p a
    · rw [List.dropWhile_cons_of_pos ha] at h; exact ih h
    · rw [List.dropWhile_cons_of_neg ha] at h
      cases h
      simpa using ha

/-- the reader refuses an empty unquoted name (the code's parser returns it and `LocalTimeType.new` refuses it later) -/
def nameChk : Bytes × Bytes → Option (Bytes × Bytes) := fun p => if p.1.isEmpty then none else some p

/-- quoted names agree exactly; unquoted ones up to the reader's refusal of the empty run -/
theorem rName_run_model (s : Bytes) :
    rName.run s = if s.head? = some 60 then (parseTimeZoneDesignation s).toOption
      else (parseTimeZoneDesignation s).toOption.bind nameChk := by
  unfold parseTimeZoneDesignation rName
  simp only [StateT.run_bind, StateT.run_get, pure_bind, readUntil, readWhile, spanWhile_eq]
  have unq : ∀ s : Bytes,
      StateT.run (do
          if (List.takeWhile isAsciiAlphabetic s).isEmpty then failure
          set (List.dropWhile isAsciiAlphabetic s)
          pure (List.takeWhile isAsciiAlphabetic s) : R Bytes) s =
        nameChk (List.takeWhile isAsciiAlphabetic s, List.dropWhile isAsciiAlphabetic s) := by
    intro s
    unfold nameChk
    simp only
    split
    · simp only [StateT.run_bind, run_failure]; rfl
    · simp only [StateT.run_bind, StateT.run_set, StateT.run_pure, pure_bind]
      rfl
  rcases s with _ | ⟨c, r⟩
  · rstep
    rw [unq]
    simp [Except.toOption]
  by_cases h60 : c = 60
  · subst h60
    rstep
    simp only [List.head?_cons, if_true]
    have e : (fun b : Nat => !(b == 62)) = (fun b => b != 62) := rfl
    rw [e]
    rcases hd : List.dropWhile (fun b => b != 62) r with _ | ⟨d, r2⟩
    · rfl
    · have h62 : d = 62 := by simpa using dropWhile_head hd
      subst h62
      simp only [readExact, List.length_cons]
      rfl
  · mred [h60]
    rw [unq]
    have : ¬ some c = some 60 := by simpa using h60
    simp [Except.toOption, this]

/-- the only two facts about `rName` used downstream -/
theorem model_of_rName {s n r : Bytes} (h : rName.run s = some (n, r)) : parseTimeZoneDesignation s = .ok (n, r) := by
  rw [rName_run_model] at h
  split at h
  · exact toOption_eq_some.mp h
  · rcases hp : parseTimeZoneDesignation s with e | p
    · rw [hp] at h; simp [Except.toOption] at h
    · rw [hp] at h
      simp only [Except.toOption, Option.bind_some, nameChk] at h
      split at h
      · cases h
      · cases h; rfl

theorem rName_of_model {s n r : Bytes} (h : parseTimeZoneDesignation s = .ok (n, r)) (hn : n ≠ []) :
    rName.run s = some (n, r) := by
  rw [rName_run_model, h]
  have : n.isEmpty = false := by
    rcases n with _ | ⟨c, n⟩
    · exact absurd rfl hn
    · rfl
  split <;> simp [Except.toOption, nameChk, this]

theorem ne_nil_of_nameValid {n : Bytes} (h : nameValid n = true) : n ≠ [] := by
  intro hn
  subst hn
  simp [nameValid] at h

/-! ### rule days -/

def dayChk : DayAst × Bytes → Option (RuleDay × Bytes) := fun p =>
  if dayOk p.1 then some (dayDenote p.1, p.2) else none

theorem readTag_self (t : Nat) (r : Bytes) : readTag (t :: r) [t] = .ok r := by
  simp [readTag, readExact]

theorem readTag_ne (t c : Nat) (r : Bytes) (h : c ≠ t) : readTag (c :: r) [t] = .error .invalidData := by
  simp [readTag, readExact, h]

theorem readTag_nil (t : Nat) : readTag [] [t] = .error .unexpectedEof := by
  simp [readTag, readExact]

theorem newJulian1_cases (n : Nat) :
    (dayOk (.j n) = true ∧ RuleDay.newJulian1 n = .ok (.julian1 n)) ∨
    (dayOk (.j n) = false ∧ ∃ e, RuleDay.newJulian1 n = .error e) := by
  unfold RuleDay.newJulian1 dayOk guardJulian1Max
  by_cases h : 1 ≤ n ∧ n ≤ 365
  · left
    have h1 : (1 : Int) ≤ n := by omega
    have h2 : (n : Int) ≤ 365 := by omega
    simp [h, h1, h2]
  · right
    by_cases h1 : (1 : Int) ≤ n <;> by_cases h2 : (n : Int) ≤ 365 <;> simp [h, h1, h2]
    omega

theorem newJulian0_cases (n : Nat) :
    (dayOk (.z n) = true ∧ RuleDay.newJulian0 n = .ok (.julian0 n)) ∨
    (dayOk (.z n) = false ∧ ∃ e, RuleDay.newJulian0 n = .error e) := by
  unfold RuleDay.newJulian0 dayOk guardJulian0Max
  by_cases h : n ≤ 365
  · left
    have h2 : ¬ (n : Int) > 365 := by omega
    simp [h, h2]
  · right
    have h2 : (n : Int) > 365 := by omega
    simp [h, h2]

theorem newMwd_cases (a b c : Nat) :
    (dayOk (.m a b c) = true ∧ RuleDay.newMwd a b c = .ok (.mwd a b c)) ∨
    (dayOk (.m a b c) = false ∧ ∃ e, RuleDay.newMwd a b c = .error e) := by
  unfold RuleDay.newMwd dayOk
  by_cases h1 : (1 : Int) ≤ a <;> by_cases h2 : (a : Int) ≤ 12 <;> by_cases h3 : (1 : Int) ≤ b <;>
    by_cases h4 : (b : Int) ≤ 5 <;> by_cases h5 : (c : Int) > 6 <;> simp [h1, h2, h3, h4, h5] <;> omega

theorem parseRuleDay_eq (s : Bytes) : (parseRuleDay s).toOption = (rDay.run s).bind dayChk := by
  unfold parseRuleDay rDay
  simp only [StateT.run_bind, StateT.run_get, pure_bind, readWhile, spanWhile_eq, parseInt_run]
  by_cases hJ : ∃ r, s = 74 :: r
  · obtain ⟨r, rfl⟩ := hJ
    rstep
    rcases h1 : rNum.run r with _ | ⟨n, r1⟩
    · rfl
    cases rNum_run_snd h1
    by_cases ho : maxU16 < n
    · have hk : dayOk (.j n) = false := by unfold maxU16 at ho; simp [dayOk]; omega
      simp [ho, Except.toOption, dayChk, hk]
    · simp only [ho, if_false]
      rcases newJulian1_cases n with ⟨hk, he⟩ | ⟨hk, e, he⟩
      · rw [he]; simp [dayChk, hk, Except.toOption, dayDenote]
      · rw [he]; simp [dayChk, hk, Except.toOption]
  by_cases hM : ∃ r, s = 77 :: r
  · obtain ⟨r, rfl⟩ := hM
    rstep
    rcases h1 : rNum.run r with _ | ⟨a, r1⟩
    · rfl
    cases rNum_run_snd h1
    simp only [Option.bind_some]
    generalize List.dropWhile isAsciiDigit r = r1
    rcases r1 with _ | ⟨c, r2⟩
    · by_cases ha : maxU8 < a <;> simp [ha, Except.toOption, readTag_nil, rByte_run_nil]
    by_cases h46 : c = 46
    case neg =>
      by_cases ha : maxU8 < a <;> simp [ha, Except.toOption, readTag_ne _ _ _ h46, rByte_run_ne _ _ _ h46]
    subst h46
    simp only [readTag_self]
    rstep
    rcases h2 : rNum.run r2 with _ | ⟨b, r3⟩
    · by_cases ha : maxU8 < a <;> simp [ha, Except.toOption]
    cases rNum_run_snd h2
    simp only [Option.bind_some]
    generalize List.dropWhile isAsciiDigit r2 = r3
    rcases r3 with _ | ⟨c, r4⟩
    · by_cases ha : maxU8 < a <;> by_cases hb : maxU8 < b <;>
        simp [ha, hb, Except.toOption, readTag_nil, rByte_run_nil]
    by_cases h46 : c = 46
    case neg =>
      by_cases ha : maxU8 < a <;> by_cases hb : maxU8 < b <;>
        simp [ha, hb, Except.toOption, readTag_ne _ _ _ h46, rByte_run_ne _ _ _ h46]
    subst h46
    simp only [readTag_self]
    rstep
    rcases h3 : rNum.run r4 with _ | ⟨c, r5⟩
    · by_cases ha : maxU8 < a <;> by_cases hb : maxU8 < b <;> simp [ha, hb, Except.toOption]
    cases rNum_run_snd h3
    simp only [Option.bind_some]
    have hk : maxU8 < a ∨ maxU8 < b ∨ maxU8 < c → dayOk (.m a b c) = false := by
      unfold maxU8; simp [dayOk]; omega
    by_cases ha : maxU8 < a
    · simp [ha, Except.toOption, dayChk, hk (Or.inl ha)]
    by_cases hb : maxU8 < b
    · simp [ha, hb, Except.toOption, dayChk, hk (Or.inr (Or.inl hb))]
    by_cases hc : maxU8 < c
    · simp [ha, hb, hc, Except.toOption, dayChk, hk (Or.inr (Or.inr hc))]
    simp only [ha, hb, hc, if_false]
    rcases newMwd_cases a b c with ⟨hk, he⟩ | ⟨hk, e, he⟩
    · rw [he]; simp [dayChk, hk, Except.toOption, dayDenote]
    · rw [he]; simp [dayChk, hk, Except.toOption]
  · have h74 : ∀ r, s ≠ 74 :: r := fun r h => hJ ⟨r, h⟩
    have h77 : ∀ r, s ≠ 77 :: r := fun r h => hM ⟨r, h⟩
    rstep
    rcases h1 : rNum.run s with _ | ⟨n, r1⟩
    · rfl
    cases rNum_run_snd h1
    by_cases ho : maxU16 < n
    · have hk : dayOk (.z n) = false := by unfold maxU16 at ho; simp [dayOk]; omega
      simp [ho, Except.toOption, dayChk, hk]
    · simp only [ho, if_false]
      rcases newJulian0_cases n with ⟨hk, he⟩ | ⟨hk, e, he⟩
      · rw [he]; simp [dayChk, hk, Except.toOption, dayDenote]
      · rw [he]; simp [dayChk, hk, Except.toOption]

/-! ### rule blocks -/

theorem cases_of_eq {ε α β : Type} (a : Except ε (β × Bytes)) (q : Option (α × Bytes)) (ok : α → Bool) (f : α → β)
    (h : a.toOption = q.bind (fun p => if ok p.1 then some (f p.1, p.2) else none)) :
    (∃ e, a = .error e ∧ (q = none ∨ ∃ d r, q = some (d, r) ∧ ok d = false)) ∨
    (∃ d r, a = .ok (f d, r) ∧ q = some (d, r) ∧ ok d = true) := by
  rcases a with e | ⟨v, c⟩
  · left
    refine ⟨e, rfl, ?_⟩
    rcases q with _ | ⟨d, r⟩
    · exact Or.inl rfl
    · right
      refine ⟨d, r, rfl, ?_⟩
      by_cases hk : ok d = true
      · simp [Except.toOption, hk] at h
      · simpa using hk
  · right
    rcases q with _ | ⟨d, r⟩
    · simp [Except.toOption] at h
    · by_cases hk : ok d = true
      · simp [Except.toOption, hk] at h
        obtain ⟨h1, h2⟩ := h
        subst h1 h2
        exact ⟨d, c, rfl, rfl, hk⟩
      · simp [Except.toOption, hk] at h

theorem ruleTime_eq (ext : Bool) (s : Bytes) :
    (if ext then parseRuleTimeExtended s else parseRuleTime s).toOption = (rSigned.run s).bind (timeChk ext) := by
  cases ext
  · exact parseRuleTime_eq s
  · simp only [if_true, timeChk_true]; exact parseRuleTimeExtended_eq s

def ruleChk (ext : Bool) : RuleAst × Bytes → Option ((RuleDay × Int) × Bytes) := fun p =>
  if dayOk p.1.day && ruleTimeOk ext p.1.time then some ((dayDenote p.1.day, ruleTime p.1.time), p.2) else none

theorem parseRuleBlock_eq (ext : Bool) (s : Bytes) :
    (parseRuleBlock s ext).toOption = (rRule.run s).bind (ruleChk ext) := by
  unfold parseRuleBlock rRule
  simp only [StateT.run_bind, StateT.run_get, pure_bind]
  have time_cases := fun c => cases_of_eq _ _ (fun x => ruleTimeOk ext (some x)) signedSeconds (ruleTime_eq ext c)
  rcases cases_of_eq _ _ dayOk dayDenote (parseRuleDay_eq s) with ⟨e, he, hr | ⟨d, r, hr, hk⟩⟩ | ⟨d, r, hp, hr, hk⟩
  · rw [he, hr]; rfl
  · rw [he, hr]
    rstep
    rcases r with _ | ⟨c, r1⟩
    · simp [Except.toOption, ruleChk, hk]
    by_cases h47 : c = 47
    · subst h47
      rstep
      rcases rSigned.run r1 with _ | ⟨t, r2⟩ <;> simp [Except.toOption, ruleChk, hk]
    · mred [h47]
      simp [Except.toOption, ruleChk, hk]
  · rw [hp, hr]
    rstep
    rcases r with _ | ⟨c, r1⟩
    · simp [Except.toOption, ruleChk, hk, ruleTimeOk, ruleTime, guardDefaultRuleTimeHours]
    by_cases h47 : c = 47
    · subst h47
      rstep
      rcases time_cases r1 with ⟨e, he, hr | ⟨t, r2, hr, hk2⟩⟩ | ⟨t, r2, hp, hr, hk2⟩
      · rw [he, hr]; rfl
      · rw [he, hr]; simp [Except.toOption, ruleChk, hk, hk2]
      · rw [hp, hr]; simp [Except.toOption, ruleChk, hk, hk2, ruleTime]
    · mred [h47]
      simp [readOptionalTag, h47, Except.toOption, ruleChk, hk, ruleTimeOk, ruleTime, guardDefaultRuleTimeHours]

/-! ### `LocalTimeType.new` on a name -/

theorem allDesignationChars_eq (n : List Nat) :
    allDesignationChars n =
      n.all (fun b => (48 ≤ b && b ≤ 57) || (65 ≤ b && b ≤ 90) || (97 ≤ b && b ≤ 122) || b == 43 || b == 45) := by
  induction n with
  | nil => rfl
  | cons b bs ih =>
    unfold allDesignationChars
    rw [List.all_cons, ← ih]
    by_cases h : isDesignationChar b = true
    · have h' := h
      unfold isDesignationChar at h'
      rw [if_pos h, h', Bool.true_and]
    · have h' := h
      unfold isDesignationChar at h'
      rw [if_neg h]
      simp only [Bool.not_eq_true] at h'
      rw [h', Bool.false_and]

theorem ltt_new_cases (off : Int) (dst : Bool) (n : Bytes) (hoff : off ≠ i32Min) :
    (nameValid n = true ∧ LocalTimeType.new off dst (some n) = .ok { utOffset := off, isDst := dst, name := some n }) ∨
    (nameValid n = false ∧ ∃ e, LocalTimeType.new off dst (some n) = .error e) := by
  unfold LocalTimeType.new TzAsciiStr.new nameValid
  rw [← allDesignationChars_eq]
  simp only [hoff, if_false, guardNameMinLen, guardNameMaxLen]
  by_cases h1 : (3 : Int) ≤ (n.length : Int) <;> by_cases h2 : ((n.length : Int)) ≤ 7 <;>
    by_cases h3 : allDesignationChars n = true <;> simp [h1, h2, h3] <;> omega

theorem signedSeconds_bound (x : Signed) (h : hmsOk 24 x.hms = true) :
    -90000 < signedSeconds x ∧ signedSeconds x < 90000 := by
  simp only [hmsOk, decide_eq_true_eq] at h
  unfold signedSeconds hmsSeconds
  split <;> omega

end TzVerif.Proofs.TzParseNT
