/-
C11 step 1: "for all years" is decided by 28 consecutive years (year kinds). INTERFACE.
-/
import TzVerif.Model.Rule
import TzVerif.Spec.Rule
import TzVerif.Proofs.RuleEval

namespace TzVerif.Proofs
open TzVerif.Model TzVerif.Gen

/-! ### The rule day relative to 1 January depends only on (leapness, weekday of 1 January) -/

/-- day of the year (0-based, relative to 1 January of the same year) of a rule day -/
def relDay (d : RuleDay) (y : Int) : Int := Spec.ruleDayNumber d y - Spec.daysBeforeYear y

theorem ruleDayNumber_eq_rel (d : RuleDay) (y : Int) :
    Spec.ruleDayNumber d y = relDay d y + Spec.daysBeforeYear y := by
  unfold relDay; omega

theorem monthLen_congr (y y' m : Int) (hl : Spec.isLeap y = Spec.isLeap y') :
    Spec.monthLen y m = Spec.monthLen y' m := by
  unfold Spec.monthLen; rw [hl]

theorem daysBeforeMonth_congr (y y' m : Int) (hl : Spec.isLeap y = Spec.isLeap y') :
    Spec.daysBeforeMonth y m = Spec.daysBeforeMonth y' m := by
  unfold Spec.daysBeforeMonth; rw [hl]

theorem nthWeekdayOfMonth_congr (y y' m w wd : Int) (hl : Spec.isLeap y = Spec.isLeap y')
    (hw : Spec.weekdayOfDay (Spec.daysBeforeYear y) = Spec.weekdayOfDay (Spec.daysBeforeYear y')) :
    Spec.nthWeekdayOfMonth y m w wd = Spec.nthWeekdayOfMonth y' m w wd := by
  unfold Spec.nthWeekdayOfMonth
  have hf : ∀ i : Nat, (Spec.weekdayOfDay (Spec.dayNumber y m 1 + Int.ofNat i) == wd) =
      (Spec.weekdayOfDay (Spec.dayNumber y' m 1 + Int.ofNat i) == wd) := by
    intro i
    have : Spec.weekdayOfDay (Spec.dayNumber y m 1 + Int.ofNat i) =
        Spec.weekdayOfDay (Spec.dayNumber y' m 1 + Int.ofNat i) := by
      unfold Spec.dayNumber
      rw [daysBeforeMonth_congr y y' m hl]
      unfold Spec.weekdayOfDay at *
      omega
    rw [this]
  have hfun : (fun (i : Nat) => Spec.weekdayOfDay (Spec.dayNumber y m 1 + Int.ofNat i) == wd) =
      (fun (i : Nat) => Spec.weekdayOfDay (Spec.dayNumber y' m 1 + Int.ofNat i) == wd) := funext hf
  simp only [hfun, monthLen_congr y y' m hl]

theorem relDay_congr (d : RuleDay) (y y' : Int) (hl : Spec.isLeap y = Spec.isLeap y')
    (hw : Spec.weekdayOfDay (Spec.daysBeforeYear y) = Spec.weekdayOfDay (Spec.daysBeforeYear y')) :
    relDay d y = relDay d y' := by
  unfold relDay Spec.ruleDayNumber
  cases d with
  | julian1 n => simp only [hl]; omega
  | julian0 n => simp only; omega
  | mwd m w wd =>
    simp only
    unfold Spec.dayNumber
    rw [nthWeekdayOfMonth_congr y y' m w wd hl hw, daysBeforeMonth_congr y y' m hl]
    omega

/-! ### Year kinds -/

/-- what the three clauses can see of a year: its leapness, the weekday of its 1 January, and the
    leapness of the next year -/
def kind (y : Int) : Bool × Int × Bool :=
  (Spec.isLeap y, Spec.weekdayOfDay (Spec.daysBeforeYear y), Spec.isLeap (y + 1))

theorem yearLen_congr (y y' : Int) (hl : Spec.isLeap y = Spec.isLeap y') : Spec.yearLen y = Spec.yearLen y' := by
  unfold Spec.yearLen; rw [hl]

theorem weekday_succ (y : Int) :
    Spec.weekdayOfDay (Spec.daysBeforeYear (y + 1)) =
      (Spec.weekdayOfDay (Spec.daysBeforeYear y) + Spec.yearLen y) % 7 := by
  rw [Spec.daysBeforeYear_succ]; unfold Spec.weekdayOfDay; omega

theorem kind_facts (d : RuleDay) (y y' : Int) (h : kind y = kind y') :
    relDay d y = relDay d y' ∧ relDay d (y + 1) = relDay d (y' + 1) ∧ Spec.yearLen y = Spec.yearLen y' := by
  unfold kind at h
  simp only [Prod.mk.injEq] at h
  obtain ⟨h1, h2, h3⟩ := h
  refine ⟨relDay_congr d y y' h1 h2, relDay_congr d _ _ h3 ?_, yearLen_congr y y' h1⟩
  rw [weekday_succ, weekday_succ, h2, yearLen_congr y y' h1]

theorem isLeap_mod400 (y : Int) : Spec.isLeap y = Spec.isLeap (y % 400) := by
  unfold Spec.isLeap
  have e4 : y % 400 % 4 = y % 4 := by omega
  have e100 : y % 400 % 100 = y % 100 := by omega
  have e400 : y % 400 % 400 = y % 400 := by omega
  rw [e4, e100, e400]

theorem daysBeforeYear_mod400 (y : Int) :
    Spec.daysBeforeYear y = Spec.daysBeforeYear (y % 400) + 146097 * (y / 400) := by
  unfold Spec.daysBeforeYear; omega

theorem kind_mod400 (y : Int) : kind y = kind (y % 400) := by
  unfold kind
  have h1 := isLeap_mod400 y
  have h2 : Spec.weekdayOfDay (Spec.daysBeforeYear y) = Spec.weekdayOfDay (Spec.daysBeforeYear (y % 400)) := by
    rw [daysBeforeYear_mod400 y]; unfold Spec.weekdayOfDay; omega
  have h3 : Spec.isLeap (y + 1) = Spec.isLeap (y % 400 + 1) := by
    rw [isLeap_mod400 (y + 1), isLeap_mod400 (y % 400 + 1)]
    have : (y + 1) % 400 = (y % 400 + 1) % 400 := by omega
    rw [this]
  rw [h1, h2, h3]

/-- the finite check: every residue mod 400 has its kind among the 28 years -/
def kindCovered (r : Nat) : Bool := Spec.kindYears.any (fun y' => kind y' == kind (Int.ofNat r))

theorem kindCovered_all : (List.range 400).all kindCovered = true := by decide +kernel

theorem exists_kindYear (y : Int) : ∃ y' ∈ Spec.kindYears, kind y' = kind y := by
  have hr : y % 400 = Int.ofNat (y % 400).toNat := by
    have : 0 ≤ y % 400 := by omega
    simp only [Int.ofNat_eq_natCast]; omega
  have hlt : (y % 400).toNat < 400 := by omega
  have h := kindCovered_all
  rw [List.all_eq_true] at h
  have h' := h (y % 400).toNat (List.mem_range.mpr hlt)
  unfold kindCovered at h'
  rw [List.any_eq_true] at h'
  obtain ⟨y', hm, he⟩ := h'
  refine ⟨y', hm, ?_⟩
  rw [kind_mod400 y, hr]
  exact eq_of_beq he

/-- transfer: a kind-invariant predicate holds for all years iff it holds on the 28 years -/
theorem allYears_iff (p : Int → Bool) (P : Int → Prop) (hp : ∀ y, p y = true ↔ P y)
    (hk : ∀ y y', kind y' = kind y → (P y' → P y)) :
    (∀ y, P y) ↔ Spec.allYears p = true := by
  unfold Spec.allYears
  rw [List.all_eq_true]
  constructor
  · intro h y _; exact (hp y).mpr (h y)
  · intro h y
    obtain ⟨y', hm, he⟩ := exists_kindYear y
    exact hk y y' he ((hp y').mp (h y' hm))

/-! ### The comparisons are kind-invariant -/

section
variable (a : AlternateTime)

theorem cmp_se (y y' : Int) (h : kind y' = kind y) :
    (Spec.startInstant a y' ≤ Spec.endInstant a y' ↔ Spec.startInstant a y ≤ Spec.endInstant a y) := by
  obtain ⟨s1, _, _⟩ := kind_facts a.dstStart y' y h
  obtain ⟨e1, _, _⟩ := kind_facts a.dstEnd y' y h
  unfold Spec.startInstant Spec.endInstant
  simp only [ruleDayNumber_eq_rel]
  rw [s1, e1]
  omega

theorem cmp_es (y y' : Int) (h : kind y' = kind y) :
    (Spec.endInstant a y' ≤ Spec.startInstant a y' ↔ Spec.endInstant a y ≤ Spec.startInstant a y) := by
  obtain ⟨s1, _, _⟩ := kind_facts a.dstStart y' y h
  obtain ⟨e1, _, _⟩ := kind_facts a.dstEnd y' y h
  unfold Spec.startInstant Spec.endInstant
  simp only [ruleDayNumber_eq_rel]
  rw [s1, e1]
  omega

theorem cmp_es1 (y y' : Int) (h : kind y' = kind y) :
    (Spec.endInstant a y' ≤ Spec.startInstant a (y' + 1) ↔ Spec.endInstant a y ≤ Spec.startInstant a (y + 1)) := by
  obtain ⟨_, s2, l⟩ := kind_facts a.dstStart y' y h
  obtain ⟨e1, _, _⟩ := kind_facts a.dstEnd y' y h
  unfold Spec.startInstant Spec.endInstant
  simp only [ruleDayNumber_eq_rel, Spec.daysBeforeYear_succ]
  rw [s2, e1, l]
  omega

theorem cmp_s1e (y y' : Int) (h : kind y' = kind y) :
    (Spec.startInstant a (y' + 1) ≤ Spec.endInstant a y' ↔ Spec.startInstant a (y + 1) ≤ Spec.endInstant a y) := by
  obtain ⟨_, s2, l⟩ := kind_facts a.dstStart y' y h
  obtain ⟨e1, _, _⟩ := kind_facts a.dstEnd y' y h
  unfold Spec.startInstant Spec.endInstant
  simp only [ruleDayNumber_eq_rel, Spec.daysBeforeYear_succ]
  rw [s2, e1, l]
  omega

theorem cmp_se1 (y y' : Int) (h : kind y' = kind y) :
    (Spec.startInstant a y' ≤ Spec.endInstant a (y' + 1) ↔ Spec.startInstant a y ≤ Spec.endInstant a (y + 1)) := by
  obtain ⟨s1, _, l⟩ := kind_facts a.dstStart y' y h
  obtain ⟨_, e2, _⟩ := kind_facts a.dstEnd y' y h
  unfold Spec.startInstant Spec.endInstant
  simp only [ruleDayNumber_eq_rel, Spec.daysBeforeYear_succ]
  rw [s1, e2, l]
  omega

theorem cmp_e1s (y y' : Int) (h : kind y' = kind y) :
    (Spec.endInstant a (y' + 1) ≤ Spec.startInstant a y' ↔ Spec.endInstant a (y + 1) ≤ Spec.startInstant a y) := by
  obtain ⟨s1, _, l⟩ := kind_facts a.dstStart y' y h
  obtain ⟨_, e2, _⟩ := kind_facts a.dstEnd y' y h
  unfold Spec.startInstant Spec.endInstant
  simp only [ruleDayNumber_eq_rel, Spec.daysBeforeYear_succ]
  rw [s1, e2, l]
  omega

theorem all_se : (∀ y, Spec.startInstant a y ≤ Spec.endInstant a y) ↔
    Spec.allYears (fun y => Spec.startInstant a y ≤ Spec.endInstant a y) = true :=
  allYears_iff _ _ (fun _ => decide_eq_true_iff) (fun y y' h => (cmp_se a y y' h).mp)

theorem all_es : (∀ y, Spec.endInstant a y ≤ Spec.startInstant a y) ↔
    Spec.allYears (fun y => Spec.endInstant a y ≤ Spec.startInstant a y) = true :=
  allYears_iff _ _ (fun _ => decide_eq_true_iff) (fun y y' h => (cmp_es a y y' h).mp)

theorem all_es1 : (∀ y, Spec.endInstant a y ≤ Spec.startInstant a (y + 1)) ↔
    Spec.allYears (fun y => Spec.endInstant a y ≤ Spec.startInstant a (y + 1)) = true :=
  allYears_iff _ _ (fun _ => decide_eq_true_iff) (fun y y' h => (cmp_es1 a y y' h).mp)

theorem all_s1e : (∀ y, Spec.startInstant a (y + 1) ≤ Spec.endInstant a y) ↔
    Spec.allYears (fun y => Spec.startInstant a (y + 1) ≤ Spec.endInstant a y) = true :=
  allYears_iff _ _ (fun _ => decide_eq_true_iff) (fun y y' h => (cmp_s1e a y y' h).mp)

theorem all_se1 : (∀ y, Spec.startInstant a y ≤ Spec.endInstant a (y + 1)) ↔
    Spec.allYears (fun y => Spec.startInstant a y ≤ Spec.endInstant a (y + 1)) = true :=
  allYears_iff _ _ (fun _ => decide_eq_true_iff) (fun y y' h => (cmp_se1 a y y' h).mp)

theorem all_e1s : (∀ y, Spec.endInstant a (y + 1) ≤ Spec.startInstant a y) ↔
    Spec.allYears (fun y => Spec.endInstant a (y + 1) ≤ Spec.startInstant a y) = true :=
  allYears_iff _ _ (fun _ => decide_eq_true_iff) (fun y y' h => (cmp_e1s a y y' h).mp)

theorem all_inter1 : (∀ y, Spec.startInstant a y ≤ Spec.endInstant a y ∧ Spec.endInstant a y ≤ Spec.startInstant a (y + 1)) ↔
    Spec.allYears (fun y => Spec.startInstant a y ≤ Spec.endInstant a y && Spec.endInstant a y ≤ Spec.startInstant a (y + 1)) = true :=
  allYears_iff _ _ (fun _ => by simp only [Bool.and_eq_true, decide_eq_true_eq])
    (fun y y' h hy => ⟨(cmp_se a y y' h).mp hy.1, (cmp_es1 a y y' h).mp hy.2⟩)

theorem all_inter2 : (∀ y, Spec.endInstant a y ≤ Spec.startInstant a y ∧ Spec.startInstant a y ≤ Spec.endInstant a (y + 1)) ↔
    Spec.allYears (fun y => Spec.endInstant a y ≤ Spec.startInstant a y && Spec.startInstant a y ≤ Spec.endInstant a (y + 1)) = true :=
  allYears_iff _ _ (fun _ => by simp only [Bool.and_eq_true, decide_eq_true_eq])
    (fun y y' h hy => ⟨(cmp_es a y y' h).mp hy.1, (cmp_se1 a y y' h).mp hy.2⟩)

end

/-- The start/end instants relative to 1 January depend on the year only through (leapness, weekday of
    1 January); comparing with the next year adds its leapness. Every such kind occurs in 2001…2028,
    so the three weak-order clauses over all years hold iff they hold over `Spec.kindYears`. -/
theorem consistent_iff_B (a : AlternateTime) (hs : RuleShape a) :
    Spec.Consistent a ↔ Spec.consistentB a = true := by
  have _ := hs  -- the reduction holds for every rule; the shape hypothesis is not needed
  unfold Spec.Consistent Spec.consistentB
  simp only [Bool.and_eq_true, Bool.or_eq_true]
  rw [all_se, all_es, all_es1, all_s1e, all_se1, all_e1s]
  exact and_assoc.symm

/-- same reduction for the other rule-level predicates used by the oracles -/
theorem startFirst_iff_B (a : AlternateTime) (hs : RuleShape a) : Spec.StartFirst a ↔ Spec.startFirstB a = true := by
  have _ := hs  -- the reduction holds for every rule; the shape hypothesis is not needed
  unfold Spec.StartFirst Spec.startFirstB
  exact all_se a

theorem interleaves_iff_B (a : AlternateTime) (hs : RuleShape a) : Spec.Interleaves a ↔ Spec.interleavesB a = true := by
  have _ := hs  -- the reduction holds for every rule; the shape hypothesis is not needed
  unfold Spec.Interleaves Spec.interleavesB
  simp only [Bool.or_eq_true]
  rw [all_inter1, all_inter2]

end TzVerif.Proofs
