/-
Structure lemmas for decode soundness: what a successful `parseHeader` / `readDataBlocks` /
`DataBlocks.parse` says about the input bytes.
-/
import TzVerif.Proofs.TzifSoundBE
import TzVerif.Proofs.TzifDecode
import TzVerif.Proofs.TzifReject

namespace TzVerif.Proofs.TzifSoundStruct
open TzVerif.Model TzVerif.Spec TzVerif.Proofs.TzifBE TzVerif.Proofs.TzifBlocks TzVerif.Proofs.TzifDecode
open TzVerif.Proofs.TzifSoundBE

/-! ### chunks -/

theorem chunks_spec (k : Nat) (hk : 0 < k) : ∀ (cnt : Nat) (x : Bytes), x.length = cnt * k →
    (chunksExact k x).flatten = x ∧ (chunksExact k x).length = cnt ∧ ∀ ch ∈ chunksExact k x, ch.length = k := by
  intro cnt
  induction cnt with
  | zero =>
    intro x hx
    have : x = [] := List.length_eq_zero_iff.mp (by omega)
    subst this
    rw [chunksExact_nil]
    simp
  | succ n ih =>
    intro x hx
    have hge : k ≤ x.length := by rw [hx, Nat.succ_mul]; omega
    have hd : (x.drop k).length = n * k := by
      rw [List.length_drop, hx, Nat.succ_mul]; omega
    obtain ⟨i1, i2, i3⟩ := ih (x.drop k) hd
    rw [chunksExact, dif_neg (by omega)]
    refine ⟨?_, ?_, ?_⟩
    · rw [List.flatten_cons, i1, List.take_append_drop]
    · rw [List.length_cons, i2]
    · intro ch hch
      rcases List.mem_cons.mp hch with h | h
      · rw [h, List.length_take]; omega
      · exact i3 ch h

theorem chunks_bytes (k : Nat) (hk : 0 < k) (cnt : Nat) (x : Bytes) (hx : x.length = cnt * k)
    (hb : ∀ y ∈ x, y < 256) : ∀ ch ∈ chunksExact k x, ∀ y ∈ ch, y < 256 := by
  intro ch hch y hy
  apply hb
  rw [← (chunks_spec k hk cnt x hx).1]
  exact List.mem_flatten.mpr ⟨ch, hch, hy⟩

theorem flatMap_eq_flatten_of (xs : List Bytes) (f : Bytes → Bytes) (h : ∀ x ∈ xs, f x = x) :
    xs.flatMap f = xs.flatten := by
  induction xs with
  | nil => rfl
  | cons x xs ih =>
    rw [List.flatMap_cons, List.flatten_cons, h x (by simp), ih (fun y hy => h y (by simp [hy]))]

/-! ### header -/

theorem len1 (l : Bytes) (h : l.length = 1) : ∃ a, l = [a] := by
  match l, h with
  | [a], _ => exact ⟨a, rfl⟩

theorem be32u_be32' (b : Bytes) (hl : b.length = 4) (hb : ∀ x ∈ b, x < 256) : be32u (be32 b) = b := by
  unfold be32u
  rw [← hl]
  exact beBytes_be32 b hb

theorem be32_lt32 (b : Bytes) (hl : b.length = 4) (hb : ∀ x ∈ b, x < 256) : be32 b < 2 ^ 32 := by
  have := be32_lt_pow b hb
  rw [hl] at this
  exact this

/-- the header, as bytes -/
def hdrEnc (vb : Nat) (res : Bytes) (h : Header) (rest : Bytes) : Bytes :=
  [84, 90, 105, 102] ++ ([vb] ++ (res ++ (be32u h.utLocalCount ++ (be32u h.stdWallCount ++
    (be32u h.leapCount ++ (be32u h.transitionCount ++ (be32u h.typeCount ++ (be32u h.charCount ++ rest))))))))

def VerOK (vb ver : Nat) : Prop := (vb = 0 ∧ ver = 1) ∨ (vb = 50 ∧ ver = 2) ∨ (vb = 51 ∧ ver = 3)

def CountsOK (h : Header) : Prop :=
  h.utLocalCount < 2 ^ 32 ∧ h.stdWallCount < 2 ^ 32 ∧ h.leapCount < 2 ^ 32 ∧ h.transitionCount < 2 ^ 32 ∧
  h.typeCount < 2 ^ 32 ∧ h.charCount < 2 ^ 32 ∧ h.typeCount ≠ 0 ∧ h.charCount ≠ 0 ∧
  (h.utLocalCount = 0 ∨ h.utLocalCount = h.typeCount) ∧ (h.stdWallCount = 0 ∨ h.stdWallCount = h.typeCount)

theorem headerTail_struct {ver : Nat} {c : Bytes} {h : Header} {rest : Bytes} (hb : ∀ x ∈ c, x < 256)
    (hp : headerTail ver c = .ok (h, rest)) :
    ∃ res, res.length = 15 ∧ (∀ x ∈ res, x < 256) ∧ h.version = ver ∧ CountsOK h ∧
      c = res ++ (be32u h.utLocalCount ++ (be32u h.stdWallCount ++
        (be32u h.leapCount ++ (be32u h.transitionCount ++ (be32u h.typeCount ++ (be32u h.charCount ++ rest)))))) := by
  unfold headerTail at hp
  split at hp
  · cases hp
  rename_i r c3 e3
  split at hp
  · cases hp
  rename_i b1 c4 e4
  split at hp
  · cases hp
  rename_i b2 c5 e5
  split at hp
  · cases hp
  rename_i b3 c6 e6
  split at hp
  · cases hp
  rename_i b4 c7 e7
  split at hp
  · cases hp
  rename_i b5 c8 e8
  split at hp
  · cases hp
  rename_i b6 c9 e9
  split at hp
  · cases hp
  rename_i hc
  cases hp
  obtain ⟨rfl, h3⟩ := readExact_ok e3
  obtain ⟨rfl, h4⟩ := readExact_ok e4
  obtain ⟨rfl, h5⟩ := readExact_ok e5
  obtain ⟨rfl, h6⟩ := readExact_ok e6
  obtain ⟨rfl, h7⟩ := readExact_ok e7
  obtain ⟨rfl, h8⟩ := readExact_ok e8
  obtain ⟨rfl, h9⟩ := readExact_ok e9
  have m1 : ∀ x ∈ b1, x < 256 := fun x hx => hb x (by simp [hx])
  have m2 : ∀ x ∈ b2, x < 256 := fun x hx => hb x (by simp [hx])
  have m3 : ∀ x ∈ b3, x < 256 := fun x hx => hb x (by simp [hx])
  have m4 : ∀ x ∈ b4, x < 256 := fun x hx => hb x (by simp [hx])
  have m5 : ∀ x ∈ b5, x < 256 := fun x hx => hb x (by simp [hx])
  have m6 : ∀ x ∈ b6, x < 256 := fun x hx => hb x (by simp [hx])
  simp only [Bool.not_eq_true', Bool.not_eq_false, Bool.and_eq_true, bne_iff_ne, ne_eq,
    Bool.or_eq_true, beq_iff_eq] at hc
  obtain ⟨⟨⟨a1, a2⟩, a3⟩, a4⟩ := hc
  refine ⟨r, h3, fun x hx => hb x (by simp [hx]), rfl, ?_, ?_⟩
  · exact ⟨be32_lt32 _ h4 m1, be32_lt32 _ h5 m2, be32_lt32 _ h6 m3, be32_lt32 _ h7 m4, be32_lt32 _ h8 m5,
      be32_lt32 _ h9 m6, a1, a2, a3, a4⟩
  · dsimp only
    rw [be32u_be32' _ h4 m1, be32u_be32' _ h5 m2, be32u_be32' _ h6 m3, be32u_be32' _ h7 m4,
      be32u_be32' _ h8 m5, be32u_be32' _ h9 m6]

theorem parseHeader_struct {c : Bytes} {h : Header} {rest : Bytes} (hb : ∀ x ∈ c, x < 256)
    (hp : parseHeader c = .ok (h, rest)) :
    ∃ vb res, res.length = 15 ∧ (∀ x ∈ res, x < 256) ∧ VerOK vb h.version ∧ CountsOK h ∧
      c = hdrEnc vb res h rest := by
  rw [parseHeader_eq] at hp
  split at hp
  · cases hp
  rename_i magic c1 e1
  split at hp
  · cases hp
  rename_i hmagic
  split at hp
  · cases hp
  rename_i vbs c2 e2
  split at hp
  · cases hp
  rename_i ver ever
  obtain ⟨rfl, h1⟩ := readExact_ok e1
  obtain ⟨rfl, h2⟩ := readExact_ok e2
  have hb2 : ∀ x ∈ c2, x < 256 := fun x hx => hb x (by simp [hx])
  obtain ⟨res, r1, r2, r3, r4, r5⟩ := headerTail_struct hb2 hp
  obtain ⟨vb, rfl⟩ := len1 vbs h2
  have hm : magic = [84, 90, 105, 102] := by
    simpa using hmagic
  refine ⟨vb, res, r1, r2, ?_, r4, ?_⟩
  · rw [r3]
    unfold verOf at ever
    unfold VerOK
    split at ever <;> simp_all
  · rw [hm, r5]
    rfl

/-! ### data blocks -/

theorem readDataBlocks_struct {ts : Nat} {c : Bytes} {h : Header} {b : DataBlocks} {rest : Bytes}
    (hp : readDataBlocks ts c h = .ok (b, rest)) :
    c = b.transitionTimes ++ (b.transitionTypes ++ (b.localTimeTypes ++ (b.designations ++ (b.leapSeconds ++
          (b.stdWalls ++ (b.utLocals ++ rest)))))) ∧
    b.transitionTimes.length = h.transitionCount * ts ∧ b.transitionTypes.length = h.transitionCount ∧
    b.localTimeTypes.length = h.typeCount * 6 ∧ b.designations.length = h.charCount ∧
    b.leapSeconds.length = h.leapCount * (ts + 4) ∧ b.stdWalls.length = h.stdWallCount ∧
    b.utLocals.length = h.utLocalCount := by
  unfold readDataBlocks at hp
  split at hp
  · cases hp
  rename_i s1 c1 e1
  split at hp
  · cases hp
  rename_i s2 c2 e2
  split at hp
  · cases hp
  rename_i s3 c3 e3
  split at hp
  · cases hp
  rename_i s4 c4 e4
  split at hp
  · cases hp
  rename_i s5 c5 e5
  split at hp
  · cases hp
  rename_i s6 c6 e6
  split at hp
  · cases hp
  rename_i s7 c7 e7
  cases hp
  obtain ⟨rfl, h1⟩ := readExact_ok e1
  obtain ⟨rfl, h2⟩ := readExact_ok e2
  obtain ⟨rfl, h3⟩ := readExact_ok e3
  obtain ⟨rfl, h4⟩ := readExact_ok e4
  obtain ⟨rfl, h5⟩ := readExact_ok e5
  obtain ⟨rfl, h6⟩ := readExact_ok e6
  obtain ⟨rfl, h7⟩ := readExact_ok e7
  exact ⟨rfl, h1, h2, h3, h4, h5, h6, h7⟩

/-! ### `DataBlocks.parse` -/

theorem TimeZone_new_fields {tr ty lp rule} {z : TimeZone}
    (h : TimeZone.new tr ty lp rule = .ok z) :
    z = { transitions := tr, localTimeTypes := ty, leapSeconds := lp, extraRule := rule } := by
  unfold TimeZone.new at h
  dsimp only at h
  split at h
  · contradiction
  · simp only [Except.ok.injEq] at h; exact h.symm

def mkTransitions (times : List Int) (idx : Bytes) : List Transition :=
  (times.zip idx).map (fun (t, i) => ({ unixLeapTime := t, localTimeTypeIndex := i } : Transition))

def mkLeap (ts : Nat) (c : Bytes) : LeapSecond :=
  { unixLeapTime := beSigned (c.take ts), correction := beSigned ((c.drop ts).take 4) }

theorem parse_struct {ts : Nat} {d : DataBlocks} {h : Header} {footer : Option Bytes}
    {pf : Bytes → Bool → Except TzError (Option TransitionRule)} {z : TimeZone}
    (hz : DataBlocks.parse ts d h footer pf = .ok z) :
    parseLocalTimeTypes d.designations h.charCount (chunksExact 6 d.localTimeTypes) = .ok z.localTimeTypes ∧
    indicatorPairsOk h.typeCount d.stdWalls d.utLocals = true ∧
    z.transitions = mkTransitions ((chunksExact ts d.transitionTimes).map beSigned) d.transitionTypes ∧
    z.leapSeconds = (chunksExact (ts + 4) d.leapSeconds).map (mkLeap ts) ∧
    (match footer with
      | none => z.extraRule = none
      | some f => pf f (h.version == 3) = .ok z.extraRule) := by
  unfold DataBlocks.parse at hz
  dsimp only at hz
  split at hz
  · contradiction
  · rename_i types htypes
    split at hz
    · contradiction
    · rename_i hind
      split at hz
      · contradiction
      · rename_i rule hr
        have := TimeZone_new_fields hz
        subst this
        refine ⟨htypes, by simpa using hind, rfl, rfl, ?_⟩
        cases footer with
        | none => simp only [Except.ok.injEq] at hr; exact hr.symm
        | some f => exact hr

end TzVerif.Proofs.TzifSoundStruct
