/-
The translated source (Generated/Src.lean, regenerated from /repo/src on every run by tools/rs2lean.py) equals the
hand-written model: src/parse/utils.rs (cursor helpers) and src/parse/tz_string.rs (the POSIX TZ string parser, C09;
also the footer of TZif files, C08, and the description fallback of C20).

In the source every helper takes `&mut Cursor` and returns a `Result`; the translation returns the new cursor next to
the value. The model returns the pair (value, rest) too, but drops the `Result` where the source can never fail
(`read_while`, `read_until`, `read_optional_tag` with a one-byte tag).
Not translated, given their model meaning (trusted, DESIGN §13): `parse_int` (`str::from_utf8` + `str::parse` on the
digit strings produced by `read_while(is_ascii_digit)`) and `LocalTimeType::new`.
-/
import TzVerif.SrcBase
import TzVerif.Model.TzString
import TzVerif.Proofs.SrcEqRule

namespace TzVerif.Proofs.SrcEq
open TzVerif TzVerif.Model TzVerif.Gen

/-- `read_exact` at an `Int` count -/
theorem read_exact_toNat (c : Bytes) (i : Int) : Src.read_exact c i = readExact c i.toNat := by
  unfold Src.read_exact readExact Src.split_at_checked
  by_cases h : i.toNat ≤ c.length <;> simp [h]

theorem read_exact_eq (c : Bytes) (n : Nat) : Src.read_exact c (n : Int) = readExact c n := by
  rw [read_exact_toNat, Int.toNat_natCast]

theorem tz_positionFrom_shift {α : Type} (p : α → Bool) (l : List α) (k : Int) :
    Src.positionFrom p k l = (Src.positionFrom p 0 l).map (· + k) := by
  induction l generalizing k with
  | nil => rfl
  | cons x xs ih =>
    unfold Src.positionFrom
    split
    · simp
    · rw [ih (k + 1), ih (0 + 1)]
      cases Src.positionFrom p 0 xs with
      | none => rfl
      | some i => simp only [Option.map_some]; congr 1; omega

theorem tz_positionFrom_ge {α : Type} (p : α → Bool) (l : List α) (k i : Int) (h : Src.positionFrom p k l = some i) : k ≤ i := by
  induction l generalizing k with
  | nil => simp [Src.positionFrom] at h
  | cons x xs ih =>
    unfold Src.positionFrom at h
    split at h
    · simp only [Option.some.injEq] at h; omega
    · have := ih _ h; omega

/-- the split the source computes: at the first position where `p` holds, or at the end -/
def splitAtPos (p : Nat → Bool) (l : Bytes) : Except ParseDataError (Bytes × Bytes) :=
  readExact l (Option.getD (Src.position p l) (l.length : Int)).toNat

theorem splitAtPos_eq (f : Nat → Bool) (l : Bytes) : splitAtPos (fun x => !f x) l = .ok (spanWhile f l) := by
  induction l with
  | nil => rfl
  | cons x xs ih =>
    unfold splitAtPos Src.position Src.positionFrom spanWhile
    cases hx : f x with
    | false => simp [readExact]
    | true =>
      simp only [Bool.not_true, Bool.false_eq_true, if_false, if_true]
      rw [tz_positionFrom_shift]
      unfold splitAtPos Src.position at ih
      cases hp : Src.positionFrom (fun x => !f x) 0 xs with
      | none =>
        rw [hp] at ih
        simp only [Option.map_none, Option.getD_none, Int.toNat_natCast, readExact, List.length_cons, Nat.le_refl, if_true,
          List.take_length, List.drop_length] at ih ⊢
        simp only [Except.ok.injEq] at ih
        rw [← ih]
        simp
      | some i =>
        rw [hp] at ih
        have h0 := tz_positionFrom_ge _ _ _ _ hp
        simp only [Option.map_some, Option.getD_some, readExact] at ih ⊢
        have e : (i + (0 + 1)).toNat = i.toNat + 1 := by omega
        rw [e]
        by_cases hle : i.toNat ≤ xs.length
        · simp only [hle, if_true, Except.ok.injEq] at ih
          rw [← ih]
          simp [hle]
        · simp [hle] at ih

theorem read_while_eq (c : Bytes) (f : Nat → Bool) : Src.read_while c f = .ok (readWhile c f) := by
  unfold Src.read_while readWhile
  rw [read_exact_toNat]
  exact splitAtPos_eq f c

theorem read_until_eq (c : Bytes) (f : Nat → Bool) : Src.read_until c f = .ok (readUntil c f) := by
  unfold Src.read_until readUntil
  rw [read_exact_toNat]
  have := splitAtPos_eq (fun b => !f b) c
  simp only [Bool.not_not] at this
  exact this

theorem read_tag_eq (c tag : Bytes) : Src.read_tag c tag = (readTag c tag).map (fun r => ((), r)) := by
  unfold Src.read_tag readTag
  rw [read_exact_eq]
  cases readExact c tag.length with
  | error e => rfl
  | ok v =>
    obtain ⟨x, rest⟩ := v
    by_cases h : x = tag <;> simp [h, Except.map]

/-- the source takes a tag slice; every call site passes a single byte -/
theorem read_optional_tag_eq (c : Bytes) (b : Nat) : Src.read_optional_tag c [b] = .ok (readOptionalTag c b) := by
  unfold Src.read_optional_tag readOptionalTag
  rw [read_exact_eq]
  cases c with
  | nil => simp
  | cons a rest =>
    by_cases h : a = b
    · subst h; simp [readExact]
    · have h' : ¬ b = a := fun e => h e.symm
      simp [h, h']

theorem parse_int_eq (m : Nat) (ds : Bytes) : Src.parse_int m ds = parseInt m ds := rfl

theorem parse_int_i32_eq (ds : Bytes) : Src.parse_int_i32 ds = parseInt maxI32 ds := rfl
theorem parse_int_u16_eq (ds : Bytes) : Src.parse_int_u16 ds = parseInt maxU16 ds := rfl
theorem parse_int_u8_eq (ds : Bytes) : Src.parse_int_u8 ds = parseInt maxU8 ds := rfl

@[simp] theorem map_err_ok {T : Type} (x : T) : Src.map_err (.ok x) = .ok x := rfl
@[simp] theorem map_err_error {T : Type} (e : ParseDataError) : Src.map_err (.error e : Except _ T) = .error (.parseData e) := rfl

theorem read_exact_one (c : Bytes) : Src.read_exact c 1 = readExact c 1 := read_exact_eq c 1
theorem read_exact_one_cons (a : Nat) (rest : Bytes) : Src.read_exact (a :: rest) 1 = .ok ([a], rest) := by
  rw [read_exact_one]; simp [readExact]

theorem digit_eq : Src.u8_is_ascii_digit = isAsciiDigit := rfl
theorem alpha_eq : Src.u8_is_ascii_alphabetic = isAsciiAlphabetic := rfl

theorem dec62 : (fun x : Nat => decide (x = 62)) = (fun x => x == 62) := rfl

theorem parse_time_zone_designation_eq (c : Bytes) : Src.parse_time_zone_designation c = parseTimeZoneDesignation c := by
  unfold Src.parse_time_zone_designation parseTimeZoneDesignation
  cases c with
  | nil => rfl
  | cons a rest =>
    by_cases h : a = 60
    · subst h
      simp only [read_exact_one_cons, List.head?_cons, beq_self_eq_true, if_true, read_until_eq, dec62]
      rw [read_exact_one]
      cases readExact (readUntil rest fun x => x == 62).snd 1 with
      | error e => rfl
      | ok v => rfl
    · simp [h, read_while_eq, alpha_eq]

theorem parse_hhmmss_eq (c : Bytes) : Src.parse_hhmmss c = parseHhmmss c := by
  unfold Src.parse_hhmmss parseHhmmss
  simp only [read_while_eq, digit_eq, parse_int_i32_eq, read_optional_tag_eq]
  generalize readWhile c isAsciiDigit = r1
  obtain ⟨hd, c1⟩ := r1
  dsimp only
  cases parseInt maxI32 hd with
  | error e => rfl
  | ok hour =>
    dsimp only
    generalize readOptionalTag c1 58 = r2
    obtain ⟨b2, c2⟩ := r2
    cases b2 with
    | false => rfl
    | true =>
      dsimp only [if_true]
      generalize readWhile c2 isAsciiDigit = r3
      obtain ⟨md, c3⟩ := r3
      dsimp only
      cases parseInt maxI32 md with
      | error e => rfl
      | ok minute =>
        dsimp only
        generalize readOptionalTag c3 58 = r4
        obtain ⟨b4, c4⟩ := r4
        cases b4 with
        | false => rfl
        | true =>
          dsimp only [if_true]
          generalize readWhile c4 isAsciiDigit = r5
          obtain ⟨sd, c5⟩ := r5
          cases parseInt maxI32 sd with
          | error e => rfl
          | ok second => rfl

theorem parse_signed_hhmmss_eq (c : Bytes) : Src.parse_signed_hhmmss c = parseSignedHhmmss c := by
  unfold Src.parse_signed_hhmmss parseSignedHhmmss
  simp only [parse_hhmmss_eq]
  cases c with
  | nil =>
    simp only [List.head?_nil]
    cases parseHhmmss [] with
    | error e => rfl
    | ok v => rfl
  | cons a rest =>
    by_cases h43 : a = 43
    · subst h43
      simp only [List.head?_cons, read_exact_one_cons]
      simp only [show decide ((43:Nat) = 45) = false from rfl, decide_true, Bool.true_or, if_true]
      cases parseHhmmss rest with
      | error e => rfl
      | ok v => rfl
    · by_cases h45 : a = 45
      · subst h45
        simp only [List.head?_cons, read_exact_one_cons]
        simp only [show decide ((45:Nat) = 43) = false from rfl, decide_true, Bool.false_or, if_true]
        cases parseHhmmss rest with
        | error e => rfl
        | ok v => rfl
      · simp only [List.head?_cons, h43, h45, decide_false, Bool.or_false, Bool.false_eq_true, if_false]
        simp only [h43, h45, List.cons.injEq, false_and, imp_self, implies_true]
        cases parseHhmmss (a :: rest) with
        | error e => rfl
        | ok v => rfl

theorem parse_offset_eq (c : Bytes) : Src.parse_offset c = parseOffset c := by
  unfold Src.parse_offset parseOffset
  rw [parse_signed_hhmmss_eq]
  cases parseSignedHhmmss c with
  | error e => rfl
  | ok v => rfl

theorem parse_rule_time_eq (c : Bytes) : Src.parse_rule_time c = parseRuleTime c := by
  unfold Src.parse_rule_time parseRuleTime
  rw [parse_hhmmss_eq]
  cases parseHhmmss c with
  | error e => rfl
  | ok v => rfl

theorem parse_rule_time_extended_eq (c : Bytes) : Src.parse_rule_time_extended c = parseRuleTimeExtended c := by
  unfold Src.parse_rule_time_extended parseRuleTimeExtended
  rw [parse_signed_hhmmss_eq]
  cases parseSignedHhmmss c with
  | error e => rfl
  | ok v => rfl

theorem parse_rule_day_eq (c : Bytes) : Src.parse_rule_day c = parseRuleDay c := by
  unfold Src.parse_rule_day parseRuleDay
  cases c with
  | nil =>
    simp only [List.head?_nil, read_while_eq, digit_eq, map_err_ok, parse_int_u16_eq]
    cases parseInt maxU16 (readWhile [] isAsciiDigit).fst with
    | error e => rfl
    | ok n =>
      dsimp only
      rw [← julian0_new_eq]
      cases Src.Julian0WithLeap.new n <;> rfl
  | cons a rest =>
    by_cases h74 : a = 74
    · subst h74
      simp only [List.head?_cons, decide_true, if_true, read_exact_one_cons, read_while_eq, digit_eq, map_err_ok, parse_int_u16_eq]
      cases parseInt maxU16 (readWhile rest isAsciiDigit).fst with
      | error e => rfl
      | ok n =>
        dsimp only
        rw [← julian1_new_eq]
        cases Src.Julian1WithoutLeap.new n <;> rfl
    · by_cases h77 : a = 77
      · subst h77
        simp only [List.head?_cons, show decide ((77 : Nat) = 74) = false from rfl, decide_true, if_true, Bool.false_eq_true, if_false,
          read_exact_one_cons, read_while_eq, digit_eq, map_err_ok, parse_int_u8_eq, read_tag_eq]
        generalize (readWhile rest isAsciiDigit).fst = d1
        generalize (readWhile rest isAsciiDigit).snd = c1
        cases parseInt maxU8 d1 with
        | error e => rfl
        | ok month =>
          dsimp only
          cases readTag c1 [46] with
          | error e => rfl
          | ok c2 =>
            dsimp only [Except.map, map_err_ok]
            generalize (readWhile c2 isAsciiDigit).fst = d3
            generalize (readWhile c2 isAsciiDigit).snd = c3
            cases parseInt maxU8 d3 with
            | error e => rfl
            | ok week =>
              dsimp only
              cases readTag c3 [46] with
              | error e => rfl
              | ok c4 =>
                dsimp only [Except.map, map_err_ok]
                generalize (readWhile c4 isAsciiDigit).fst = d5
                generalize (readWhile c4 isAsciiDigit).snd = c5
                cases parseInt maxU8 d5 with
                | error e => rfl
                | ok weekDay =>
                  dsimp only
                  rw [← mwd_new_eq]
                  cases Src.MonthWeekDay.new month week weekDay <;> rfl
      · simp only [List.head?_cons, h74, h77, decide_false, Bool.false_eq_true, if_false, read_while_eq, digit_eq, map_err_ok, parse_int_u16_eq,
          List.cons.injEq, false_and, imp_self, implies_true]
        cases parseInt maxU16 (readWhile (a :: rest) isAsciiDigit).fst with
        | error e => rfl
        | ok n =>
          dsimp only
          rw [← julian0_new_eq]
          cases Src.Julian0WithLeap.new n <;> rfl

theorem parse_rule_block_eq (c : Bytes) (ext : Bool) : Src.parse_rule_block c ext = parseRuleBlock c ext := by
  unfold Src.parse_rule_block parseRuleBlock
  simp only [parse_rule_day_eq, read_optional_tag_eq, map_err_ok, parse_rule_time_extended_eq, parse_rule_time_eq]
  cases parseRuleDay c with
  | error e => rfl
  | ok v =>
    obtain ⟨date, c1⟩ := v
    dsimp only
    generalize readOptionalTag c1 47 = r
    obtain ⟨b, c2⟩ := r
    cases b with
    | false => rfl
    | true =>
      dsimp only [if_true]
      cases ext with
      | false =>
        cases parseRuleTime c2 with
        | error e => rfl
        | ok w => rfl
      | true =>
        cases parseRuleTimeExtended c2 with
        | error e => rfl
        | ok w => rfl

-- the common end of `parse_posix_tz` once the DST offset and the cursor after it are known
set_option hygiene false in
local macro "posix_tail" c4:ident ext:ident : tactic => `(tactic|
  (cases $c4:ident with
   | nil => rfl
   | cons a4 r4 =>
     simp only [List.isEmpty_cons, Bool.false_eq_true, if_false]
     cases readTag (a4 :: r4) [44] with
     | error e => rfl
     | ok c5 =>
       dsimp only [Except.map, map_err_ok]
       cases parseRuleBlock c5 $ext:ident with
       | error e => rfl
       | ok v =>
         obtain ⟨⟨ds, dstt⟩, c6⟩ := v
         dsimp only
         cases readTag c6 [44] with
         | error e => rfl
         | ok c7 =>
           dsimp only [Except.map, map_err_ok]
           cases parseRuleBlock c7 $ext:ident with
           | error e => rfl
           | ok v =>
             obtain ⟨⟨de, det⟩, c8⟩ := v
             dsimp only
             cases c8 with
             | cons a8 r8 => rfl
             | nil =>
               simp only [List.isEmpty_nil, Bool.not_true, Bool.false_eq_true, if_false]
               cases LocalTimeType.new (-stdOffset) false (some stdName) with
               | error e => rfl
               | ok std =>
                 dsimp only
                 generalize LocalTimeType.new _ true (some dstName) = r
                 cases r with
                 | error e => rfl
                 | ok dst =>
                   dsimp only
                   generalize AlternateTime.new std dst ds dstt de det = r
                   cases r <;> rfl))

/-- the whole parser -/
theorem parse_posix_tz_eq (s : Bytes) (ext : Bool) : Src.parse_posix_tz s ext = parsePosixTz s ext := by
  unfold Src.parse_posix_tz parsePosixTz
  simp only [parse_time_zone_designation_eq, parse_offset_eq, read_tag_eq, parse_rule_block_eq, alternate_new_eq]
  cases parseTimeZoneDesignation s with
  | error e => rfl
  | ok v =>
    obtain ⟨stdName, c1⟩ := v
    dsimp only [map_err_ok]
    cases parseOffset c1 with
    | error e => rfl
    | ok v =>
      obtain ⟨stdOffset, c2⟩ := v
      dsimp only
      cases c2 with
      | nil =>
        dsimp only [List.isEmpty_nil, if_true]
        cases LocalTimeType.new (-stdOffset) false (some stdName) <;> rfl
      | cons a2 r2 =>
        simp only [List.isEmpty_cons, Bool.false_eq_true, if_false]
        cases parseTimeZoneDesignation (a2 :: r2) with
        | error e => rfl
        | ok v =>
          obtain ⟨dstName, c3⟩ := v
          dsimp only [map_err_ok]
          cases c3 with
          | nil => rfl
          | cons a3 r3 =>
            by_cases h : a3 = 44
            · subst h
              simp only [List.head?_cons, decide_true, if_true, guardDefaultDstShift]
              generalize hc : (44 :: r3 : List Nat) = c4
              generalize stdOffset - 3600 = dstOffset
              posix_tail c4 ext
            · simp only [List.head?_cons, h, decide_false, Bool.false_eq_true, if_false]
              cases parseOffset (a3 :: r3) with
              | error e => rfl
              | ok v =>
                obtain ⟨dstOffset, c4⟩ := v
                dsimp only [liftStr]
                posix_tail c4 ext

end TzVerif.Proofs.SrcEq
