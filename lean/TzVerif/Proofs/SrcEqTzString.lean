/-
The translated source (Generated/Src.lean, regenerated from /repo/src on every run by tools/rs2lean.py) equals the
hand-written model: src/parse/utils.rs (cursor helpers) and src/parse/tz_string.rs (the POSIX TZ string parser, C09;
also the footer of TZif files, C08, and the description fallback of C20).

In the source every helper takes `&mut Cursor` and returns a `Result`; the translation returns the new cursor next to
the value. The model returns the pair (value, rest) too, but drops the `Result` where the source can never fail
(`read_while`, `read_until`, `read_optional_tag` with a one-byte tag).
Not translated, given their model meaning (trusted, DESIGN §13): `parse_int` (`str::from_utf8` + `str::parse` on the
digit strings produced by `read_while(is_ascii_digit)`) and `LocalTimeType::new`.
-/
import TzVerif.Generated.Src
import TzVerif.Model.TzString
import TzVerif.Proofs.SrcEqRule

namespace TzVerif.Proofs.SrcEq
open TzVerif TzVerif.Model TzVerif.Gen

theorem read_exact_eq (c : Bytes) (n : Nat) : Src.read_exact c (n : Int) = readExact c n := by
  sorry

theorem read_while_eq (c : Bytes) (f : Nat → Bool) : Src.read_while c f = .ok (readWhile c f) := by
  sorry

theorem read_until_eq (c : Bytes) (f : Nat → Bool) : Src.read_until c f = .ok (readUntil c f) := by
  sorry

theorem read_tag_eq (c tag : Bytes) : Src.read_tag c tag = (readTag c tag).map (fun r => ((), r)) := by
  sorry

/-- the source takes a tag slice; every call site passes a single byte -/
theorem read_optional_tag_eq (c : Bytes) (b : Nat) : Src.read_optional_tag c [b] = .ok (readOptionalTag c b) := by
  sorry

theorem parse_int_i32_eq (ds : Bytes) : Src.parse_int_i32 ds = parseInt maxI32 ds := by
  sorry

theorem parse_int_u16_eq (ds : Bytes) : Src.parse_int_u16 ds = parseInt maxU16 ds := by
  sorry

theorem parse_int_u8_eq (ds : Bytes) : Src.parse_int_u8 ds = parseInt maxU8 ds := by
  sorry

theorem parse_time_zone_designation_eq (c : Bytes) : Src.parse_time_zone_designation c = parseTimeZoneDesignation c := by
  sorry

theorem parse_hhmmss_eq (c : Bytes) : Src.parse_hhmmss c = parseHhmmss c := by
  sorry

theorem parse_signed_hhmmss_eq (c : Bytes) : Src.parse_signed_hhmmss c = parseSignedHhmmss c := by
  sorry

theorem parse_offset_eq (c : Bytes) : Src.parse_offset c = parseOffset c := by
  sorry

theorem parse_rule_day_eq (c : Bytes) : Src.parse_rule_day c = parseRuleDay c := by
  sorry

theorem parse_rule_time_eq (c : Bytes) : Src.parse_rule_time c = parseRuleTime c := by
  sorry

theorem parse_rule_time_extended_eq (c : Bytes) : Src.parse_rule_time_extended c = parseRuleTimeExtended c := by
  sorry

theorem parse_rule_block_eq (c : Bytes) (ext : Bool) : Src.parse_rule_block c ext = parseRuleBlock c ext := by
  sorry

/-- the whole parser -/
theorem parse_posix_tz_eq (s : Bytes) (ext : Bool) : Src.parse_posix_tz s ext = parsePosixTz s ext := by
  sorry

end TzVerif.Proofs.SrcEq
