/-
The translated source equals the model: the two result containers of src/datetime/find.rs —
`FoundDateTimeListRefMut::{new, push, data, count, is_exhaustive, unique, earliest, latest}` and
`FoundDateTimeList::{push, unique, earliest, latest}` (C17, and the accessor clauses of C06).
-/
import TzVerif.SrcBase
import TzVerif.Model.Find

namespace TzVerif.Proofs.SrcEq
open TzVerif TzVerif.Model

theorem flatten_eq (l : List (Option Found)) : Src.flatten l = flattenOpts l := by
  induction l with
  | nil => rfl
  | cons a l ih => cases a <;> simp [Src.flatten, flattenOpts, ih]

/-! ### `FoundDateTimeListRefMut` -/

theorem refmut_new_eq (buf : List (Option Found)) : Src.FoundDateTimeListRefMut.new buf = RefMut.new buf := by
  simp [Src.FoundDateTimeListRefMut.new, RefMut.new]

theorem refmut_data_eq (r : RefMut) : Src.FoundDateTimeListRefMut.data r = r.data := by
  simp [Src.FoundDateTimeListRefMut.data, RefMut.data]

theorem refmut_count_eq (r : RefMut) : Src.FoundDateTimeListRefMut.count r = (r.count : Int) := rfl

theorem refmut_is_exhaustive_eq (r : RefMut) : Src.FoundDateTimeListRefMut.is_exhaustive r = r.isExhaustive := by
  simp only [Src.FoundDateTimeListRefMut.is_exhaustive, RefMut.isExhaustive]
  by_cases h : r.currentIndex = r.count
  · simp [h]
  · have : ¬ (r.currentIndex : Int) = (r.count : Int) := by omega
    simp [h, this]

/-- `push(&mut self, x)`: the unit result and the updated wrapper -/
theorem refmut_push_eq (r : RefMut) (f : Found) : Src.FoundDateTimeListRefMut.push r f = ((), r.push f) := by
  simp only [Src.FoundDateTimeListRefMut.push, RefMut.push]
  by_cases h : r.currentIndex < r.buf.length
  · have h' : (r.currentIndex : Int) < (r.buf.length : Int) := by omega
    simp [h, h']
  · have h' : ¬ (r.currentIndex : Int) < (r.buf.length : Int) := by omega
    simp [h, h']

theorem refmut_unique_eq (r : RefMut) : Src.FoundDateTimeListRefMut.unique r = r.unique := by
  simp only [Src.FoundDateTimeListRefMut.unique, RefMut.unique, refmut_data_eq, flatten_eq]
  rcases flattenOpts r.data with _ | ⟨a, _ | ⟨b, l⟩⟩
  · rfl
  · cases a <;> rfl
  · cases a <;> rfl

theorem refmut_earliest_eq (r : RefMut) : Src.FoundDateTimeListRefMut.earliest r = r.earliest := by
  simp only [Src.FoundDateTimeListRefMut.earliest, RefMut.earliest, listEarliest, refmut_data_eq, flatten_eq]
  cases (flattenOpts r.data).head? with
  | none => rfl
  | some a => cases a <;> rfl

theorem refmut_latest_eq (r : RefMut) : Src.FoundDateTimeListRefMut.latest r = r.latest := by
  simp only [Src.FoundDateTimeListRefMut.latest, RefMut.latest, listLatest, refmut_data_eq, flatten_eq]
  cases (flattenOpts r.data).getLast? with
  | none => rfl
  | some a => cases a <;> rfl

/-! ### `FoundDateTimeList` -/

/-- `push(&mut self, x)` appends: this is the meaning the translation of `find_date_time` gives to pushing into its
output list -/
theorem list_push_eq (l : List Found) (f : Found) : Src.FoundDateTimeList.push l f = ((), l ++ [f]) := rfl

theorem list_unique_eq (l : List Found) : Src.FoundDateTimeList.unique l = listUnique l := by
  rcases l with _ | ⟨a, _ | ⟨b, l⟩⟩
  · rfl
  · cases a <;> rfl
  · cases a <;> rfl

theorem list_earliest_eq (l : List Found) : Src.FoundDateTimeList.earliest l = listEarliest l := by
  simp only [Src.FoundDateTimeList.earliest, listEarliest]
  cases l.head? with
  | none => rfl
  | some a => cases a <;> rfl

theorem list_latest_eq (l : List Found) : Src.FoundDateTimeList.latest l = listLatest l := by
  simp only [Src.FoundDateTimeList.latest, listLatest]
  cases l.getLast? with
  | none => rfl
  | some a => cases a <;> rfl

/-- pushing the results of a search one by one with the translated `push` is the model's fold (`find_n`) -/
theorem refmut_pushes_eq (rs : List Found) (r : RefMut) :
    rs.foldl (fun acc f => (Src.FoundDateTimeListRefMut.push acc f).2) r = rs.foldl RefMut.push r := by
  induction rs generalizing r with
  | nil => rfl
  | cons f rs ih => simp only [List.foldl, refmut_push_eq]

/-- pushing one by one into the allocating list yields the sequence itself -/
theorem list_pushes_eq (rs acc : List Found) :
    rs.foldl (fun acc f => (Src.FoundDateTimeList.push acc f).2) acc = acc ++ rs := by
  induction rs generalizing acc with
  | nil => simp
  | cons f rs ih => simp only [List.foldl, list_push_eq] at ih ⊢; rw [ih]; simp

end TzVerif.Proofs.SrcEq
