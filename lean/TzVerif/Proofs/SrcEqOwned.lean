/-
The translated source equals the model: the owned zone's wrappers in src/timezone/mod.rs — `TimeZone::as_ref`
(the borrowed view is the same model structure), `TimeZone::find_local_time_type`, `TimeZone::from_tz_data` — and the
constant `LocalTimeType::utc()`.
-/
import TzVerif.Proofs.SrcEqZone
import TzVerif.Proofs.SrcEqTzFile
import TzVerif.Proofs.SrcEqLtt

namespace TzVerif.Proofs.SrcEq
open TzVerif TzVerif.Model

theorem tz_as_ref_eq (z : TimeZone) : Src.TimeZone.as_ref z = z := by
  cases z; rfl

theorem tz_find_local_time_type_eq (z : TimeZone) (u : Int) :
    Src.TimeZone.find_local_time_type z u = z.findLocalTimeType u := by
  unfold Src.TimeZone.find_local_time_type
  rw [tz_as_ref_eq, find_local_time_type_eq]

theorem tz_from_tz_data_eq (b : List Nat) : Src.TimeZone.from_tz_data b = parseTzFile b := by
  unfold Src.TimeZone.from_tz_data
  exact parse_tz_file_eq b

theorem ltt_utc_eq : lttOf Src.LocalTimeType.utc = LocalTimeType.utc := rfl

end TzVerif.Proofs.SrcEq
