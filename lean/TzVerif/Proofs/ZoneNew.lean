/-
Helper lemmas for C13 (zone constructor). INTERFACE used by Properties/C13.lean.
-/
import TzVerif.Model.TimeZone
import TzVerif.Spec.Zone

namespace TzVerif.Proofs
open TzVerif.Model TzVerif.Gen


theorem satSub_ge_iff (a b m : Int) (ha : i64Min ≤ a ∧ a ≤ i64Max) (hb : i64Min ≤ b ∧ b ≤ i64Max)
    (hm : i64Min < m ∧ m ≤ i64Max) : satSubI64 a b ≥ m ↔ a - b ≥ m := by
  have _ := ha; have _ := hb
  unfold satSubI64
  by_cases h1 : a - b < i64Min
  · rw [if_pos h1]; simp only [i64Min, i64Max] at *; omega
  · rw [if_neg h1]
    by_cases h2 : a - b > i64Max
    · rw [if_pos h2]; simp only [i64Min, i64Max] at *; omega
    · rw [if_neg h2]

theorem satSubI32_eq (a b : Int) :
    (a - b < i32Min ∧ satSubI32 a b = i32Min) ∨ (a - b > i32Max ∧ satSubI32 a b = i32Max) ∨
    (i32Min ≤ a - b ∧ a - b ≤ i32Max ∧ satSubI32 a b = a - b) := by
  unfold satSubI32
  by_cases h1 : a - b < i32Min
  · rw [if_pos h1]; exact .inl ⟨h1, rfl⟩
  · rw [if_neg h1]
    by_cases h2 : a - b > i32Max
    · rw [if_pos h2]; exact .inr (.inl ⟨h2, rfl⟩)
    · rw [if_neg h2]; exact .inr (.inr ⟨by omega, by omega, rfl⟩)

theorem satAbsI32_eq_one_iff (d : Int) : satAbsI32 d = 1 ↔ (d = 1 ∨ d = -1) := by
  unfold satAbsI32 absI
  by_cases h1 : d = i32Min
  · rw [if_pos h1]; simp only [i32Min, i32Max] at *; omega
  · rw [if_neg h1]
    by_cases h2 : d < 0
    · rw [if_pos h2]; simp only [i32Min] at *; omega
    · rw [if_neg h2]; simp only [i32Min] at *; omega

theorem satAbs_satSub_eq_one_iff (a b : Int) (ha : i32Min ≤ a ∧ a ≤ i32Max) (hb : i32Min ≤ b ∧ b ≤ i32Max) :
    satAbsI32 (satSubI32 a b) = 1 ↔ (a - b = 1 ∨ a - b = -1) := by
  have _ := ha; have _ := hb
  rw [satAbsI32_eq_one_iff]
  have := satSubI32_eq a b
  simp only [i32Min, i32Max] at *
  omega

theorem isDesignationChar_iff (b : Nat) :
    isDesignationChar b = true ↔
      ((48 ≤ b ∧ b ≤ 57) ∨ (65 ≤ b ∧ b ≤ 90) ∨ (97 ≤ b ∧ b ≤ 122) ∨ b = 43 ∨ b = 45) := by
  unfold isDesignationChar
  simp only [Bool.or_eq_true, Bool.and_eq_true, decide_eq_true_eq, beq_iff_eq]
  omega

theorem equal_iff (a b : LocalTimeType) : a.equal b = true ↔ a = b := by
  cases a; cases b
  simp [LocalTimeType.equal, and_assoc]

theorem allDesignationChars_iff (n : List Nat) :
    allDesignationChars n = true ↔ ∀ b ∈ n, isDesignationChar b = true := by
  induction n with
  | nil => simp [allDesignationChars]
  | cons x xs ih =>
    simp only [allDesignationChars, List.mem_cons, forall_eq_or_imp]
    cases hx : isDesignationChar x <;> simp [ih]

theorem allDesignationChars_false (n : List Nat) (h : allDesignationChars n = false) :
    ∃ b ∈ n, isDesignationChar b = false := by
  induction n with
  | nil => simp [allDesignationChars] at h
  | cons x xs ih =>
    simp only [allDesignationChars] at h
    cases hx : isDesignationChar x
    · exact ⟨x, by simp, hx⟩
    · simp [hx] at h
      obtain ⟨b, hb, hb'⟩ := ih h
      exact ⟨b, by simp [hb], hb'⟩

theorem lenGuard_iff (n : List Nat) :
    (guardNameMinLen ≤ (n.length : Int) && (n.length : Int) ≤ guardNameMaxLen) = true ↔ 3 ≤ n.length ∧ n.length ≤ 7 := by
  simp only [Bool.and_eq_true, decide_eq_true_eq]
  simp only [guardNameMinLen, guardNameMaxLen]
  omega

theorem tzAsciiNew_ok_iff (n r : List Nat) :
    TzAsciiStr.new n = .ok r ↔ r = n ∧ 3 ≤ n.length ∧ n.length ≤ 7 ∧ ∀ b ∈ n, isDesignationChar b = true := by
  unfold TzAsciiStr.new
  rw [← allDesignationChars_iff]
  have hg := lenGuard_iff n
  cases hl : (guardNameMinLen ≤ (n.length : Int) && (n.length : Int) ≤ guardNameMaxLen)
  · rw [hl] at hg; simp [hl]; intro _ h1 h2; exact absurd (hg.2 ⟨h1, h2⟩) (by simp)
  · rw [hl] at hg
    have := hg.1 rfl
    cases h3 : allDesignationChars n
    · simp [hl]
    · simp [hl, this]; exact eq_comm

theorem tzAsciiNew_err (n : List Nat) (e : LocalTimeTypeError) (h : TzAsciiStr.new n = .error e) :
    (e = .invalidTimeZoneDesignationLength ∧ ¬ (3 ≤ n.length ∧ n.length ≤ 7)) ∨
       (e = .invalidTimeZoneDesignationChar ∧ 3 ≤ n.length ∧ n.length ≤ 7 ∧ ∃ b ∈ n, isDesignationChar b = false) := by
  unfold TzAsciiStr.new at h
  have hg := lenGuard_iff n
  cases hl : (guardNameMinLen ≤ (n.length : Int) && (n.length : Int) ≤ guardNameMaxLen)
  · rw [hl] at hg
    simp [hl] at h
    left; exact ⟨h.symm, fun hh => by simpa using hg.2 hh⟩
  · rw [hl] at hg
    have := hg.1 rfl
    cases h3 : allDesignationChars n
    · simp [hl, h3] at h
      right; exact ⟨h.symm, this.1, this.2, allDesignationChars_false n h3⟩
    · simp [hl, h3] at h

theorem lttNew_ok_iff (off : Int) (dst : Bool) (name : Option (List Nat)) (t : LocalTimeType) :
    LocalTimeType.new off dst name = .ok t ↔
      (t = { utOffset := off, isDst := dst, name := name } ∧ off ≠ i32Min ∧
       (match name with
        | none => True
        | some n => 3 ≤ n.length ∧ n.length ≤ 7 ∧ ∀ b ∈ n, isDesignationChar b = true)) := by
  unfold LocalTimeType.new
  by_cases ho : off = i32Min
  · simp [ho]
  · rw [if_neg ho]
    cases name with
    | none => simp [ho]; exact eq_comm
    | some n =>
      simp only
      cases hn : TzAsciiStr.new n with
      | error e =>
        simp only [reduceCtorEq, false_iff]
        rintro ⟨_, _, h1, h2, h3⟩
        have := (tzAsciiNew_ok_iff n n).2 ⟨rfl, h1, h2, h3⟩
        rw [hn] at this; cases this
      | ok r =>
        have := (tzAsciiNew_ok_iff n r).1 hn
        obtain ⟨rfl, h1, h2, h3⟩ := this
        simp only [Except.ok.injEq]
        constructor
        · intro h; exact ⟨h.symm, ho, h1, h2, h3⟩
        · intro h; exact h.1.symm

theorem lttNew_errors (off : Int) (dst : Bool) (name : Option (List Nat)) (e : LocalTimeTypeError)
    (h : LocalTimeType.new off dst name = .error e) :
    (e = .invalidUtcOffset ∧ off = i32Min) ∨
    (∃ n, name = some n ∧ off ≠ i32Min ∧
      ((e = .invalidTimeZoneDesignationLength ∧ ¬ (3 ≤ n.length ∧ n.length ≤ 7)) ∨
       (e = .invalidTimeZoneDesignationChar ∧ 3 ≤ n.length ∧ n.length ≤ 7 ∧ ∃ b ∈ n, isDesignationChar b = false))) := by
  unfold LocalTimeType.new at h
  by_cases ho : off = i32Min
  · rw [if_pos ho] at h; cases h; exact .inl ⟨rfl, ho⟩
  · rw [if_neg ho] at h
    cases name with
    | none => cases h
    | some n =>
      simp only at h
      cases hn : TzAsciiStr.new n with
      | error e' =>
        rw [hn] at h; cases h
        exact .inr ⟨n, rfl, ho, tzAsciiNew_err n e hn⟩
      | ok r => rw [hn] at h; cases h



theorem checkTransitions_ok_iff (n : Nat) (ts : List Transition) :
    checkTransitions n ts = .ok () ↔ (∀ t ∈ ts, t.localTimeTypeIndex < n) ∧ Spec.StrictlyIncreasing ts := by
  fun_induction checkTransitions n ts with
  | case1 => simp [Spec.StrictlyIncreasing]
  | case2 t tl h =>
    simp only [reduceCtorEq, false_iff]
    intro hh
    have := hh.1 t (by simp)
    omega
  | case3 t h =>
    simp only [Spec.StrictlyIncreasing, List.mem_singleton, forall_eq, true_iff, and_true]
    omega
  | case4 t h t' tl h2 =>
    simp only [reduceCtorEq, false_iff, Spec.StrictlyIncreasing]
    intro hh
    have := hh.2.1
    omega
  | case5 t h t' tl h2 ih =>
    rw [ih]
    simp only [Spec.StrictlyIncreasing, List.mem_cons, forall_eq_or_imp]
    constructor
    · rintro ⟨⟨a, b⟩, c⟩; exact ⟨⟨by omega, a, b⟩, by omega, c⟩
    · rintro ⟨⟨_, a, b⟩, _, c⟩; exact ⟨⟨a, b⟩, c⟩

theorem checkTransitions_err (n : Nat) (ts : List Transition) (e : TzError)
    (h : checkTransitions n ts = .error e) :
    (e = .timeZone .invalidLocalTimeTypeIndex ∧ ¬ (∀ t ∈ ts, t.localTimeTypeIndex < n)) ∨
    (e = .timeZone .invalidTransition ∧ ¬ Spec.StrictlyIncreasing ts) := by
  fun_induction checkTransitions n ts with
  | case1 => cases h
  | case2 t tl h1 =>
    cases h
    refine .inl ⟨rfl, fun hh => ?_⟩
    have := hh t (by simp)
    omega
  | case3 t h1 => cases h
  | case4 t h1 t' tl h2 =>
    cases h
    refine .inr ⟨rfl, fun hh => ?_⟩
    have := hh.1
    omega
  | case5 t h1 t' tl h2 ih =>
    rcases ih h with ⟨he, hn⟩ | ⟨he, hn⟩
    · exact .inl ⟨he, fun hh => hn fun x hx => hh x (List.mem_cons_of_mem _ hx)⟩
    · exact .inr ⟨he, fun hh => hn hh.2⟩

theorem leapGuard_iff (x0 x1 : LeapSecond)
    (h0 : i64Min ≤ x0.unixLeapTime ∧ x0.unixLeapTime ≤ i64Max ∧ i32Min ≤ x0.correction ∧ x0.correction ≤ i32Max)
    (h1 : i64Min ≤ x1.unixLeapTime ∧ x1.unixLeapTime ≤ i64Max ∧ i32Min ≤ x1.correction ∧ x1.correction ≤ i32Max) :
    (decide (satSubI64 x1.unixLeapTime x0.unixLeapTime ≥ SECONDS_PER_28_DAYS - guardLeapMinIntervalSlack) &&
      satAbsI32 (satSubI32 x1.correction x0.correction) == 1) = true ↔
    (x1.unixLeapTime - x0.unixLeapTime ≥ 2419199 ∧
      (x1.correction - x0.correction = 1 ∨ x1.correction - x0.correction = -1)) := by
  have hc : SECONDS_PER_28_DAYS - guardLeapMinIntervalSlack = 2419199 := by decide
  rw [Bool.and_eq_true, decide_eq_true_eq, beq_iff_eq, hc,
    satSub_ge_iff _ _ 2419199 ⟨h1.1, h1.2.1⟩ ⟨h0.1, h0.2.1⟩ (by decide),
    satAbs_satSub_eq_one_iff _ _ h1.2.2 h0.2.2]

theorem checkLeapPairs_ok_iff (ls : List LeapSecond) (hr : Spec.LeapInRange ls) :
    checkLeapPairs ls = .ok () ↔ Spec.LeapStepsOK ls := by
  fun_induction checkLeapPairs ls with
  | case1 => simp [Spec.LeapStepsOK]
  | case2 x => simp [Spec.LeapStepsOK]
  | case3 x0 x1 rest dt dc h =>
    simp only [reduceCtorEq, false_iff, Spec.LeapStepsOK]
    intro hh
    have := (leapGuard_iff x0 x1 (hr x0 (by simp)) (hr x1 (by simp))).2 ⟨hh.1, hh.2.1⟩
    simp only [dt, dc] at h
    rw [this] at h
    cases h
  | case4 x0 x1 rest dt dc h ih =>
    rw [ih (fun l hl => hr l (List.mem_cons_of_mem _ hl))]
    simp only [Spec.LeapStepsOK]
    simp only [dt, dc, Bool.not_eq_true', Bool.not_eq_false] at h
    have := (leapGuard_iff x0 x1 (hr x0 (by simp)) (hr x1 (by simp))).1 h
    exact ⟨fun hh => ⟨this.1, this.2, hh⟩, fun hh => hh.2.2⟩

theorem checkLeapPairs_err (ls : List LeapSecond) (e : TzError) (h : checkLeapPairs ls = .error e) :
    e = .timeZone .invalidLeapSecond := by
  fun_induction checkLeapPairs ls with
  | case1 => cases h
  | case2 x => cases h
  | case3 x0 x1 rest dt dc h1 => cases h; rfl
  | case4 x0 x1 rest dt dc h1 ih => exact ih h

theorem tryIntoI32_err (v : Int) (e : TzError) (h : tryIntoI32 v = .error e) : e = .outOfRange := by
  unfold tryIntoI32 at h
  split at h
  · cases h
  · cases h; rfl

theorem fromTimespec_err (u ns : Int) (e : TzError) (h : UtcDateTime.fromTimespec u ns = .error e) : e = .outOfRange := by
  unfold UtcDateTime.fromTimespec at h
  simp only at h
  split at h
  · cases h; rfl
  · split at h
    · cases h; exact tryIntoI32_err _ _ (by assumption)
    · cases h

theorem ruleFind_err (r : TransitionRule) (ut : Int) (e : TzError) (h : r.findLocalTimeType ut = .error e) :
    e = .outOfRange := by
  cases r with
  | fixed t => cases h
  | alternate a =>
    simp only [TransitionRule.findLocalTimeType, AlternateTime.findLocalTimeType] at h
    split at h
    · cases h; exact fromTimespec_err _ _ _ (by assumption)
    · split at h
      · cases h; rfl
      · split at h <;> cases h

theorem leapToUnix_err (ls : List LeapSecond) (t : Int) (e : TzError) (h : unixLeapTimeToUnixTime ls t = .error e) :
    e = .outOfRange := by
  unfold unixLeapTimeToUnixTime at h
  split at h
  · cases h; rfl
  · simp only at h
    repeat' (split at h)
    all_goals (cases h <;> rfl)



/-- last stage of `check_inputs` (the trailing rule against the last transition) -/
def ruleStage (z : TimeZone) : Except TzError Unit :=
  match z.extraRule, z.transitions.getLast? with
  | some rule, some last =>
    let lastType := z.localTimeTypes.getD last.localTimeTypeIndex default
    match unixLeapTimeToUnixTime z.leapSeconds last.unixLeapTime with
    | .error e => .error e
    | .ok ut =>
      match rule.findLocalTimeType ut with
      | .error e => .error e
      | .ok rt => if !(lastType.equal rt) then .error (.timeZone .inconsistentExtraRule) else .ok ()
  | _, _ => .ok ()

/-- the test on the first leap record -/
def leapFirstOk : List LeapSecond → Bool
  | [] => true
  | l :: _ => l.unixLeapTime ≥ 0 && satAbsI32 l.correction == 1

/-- leap table stage of `check_inputs`, followed by `k` -/
def leapStage (ls : List LeapSecond) (k : Except TzError Unit) : Except TzError Unit :=
  if !(leapFirstOk ls) then .error (.timeZone .invalidLeapSecond) else
  match checkLeapPairs ls with
  | .error e => .error e
  | .ok () => k

theorem zoneCheckInputs_eq (z : TimeZone) :
    z.checkInputs =
      if z.localTimeTypes.length = 0 then .error (.timeZone .noLocalTimeType) else
      match checkTransitions z.localTimeTypes.length z.transitions with
      | .error e => .error e
      | .ok () => leapStage z.leapSeconds (ruleStage z) := rfl


theorem leapWF_iff (ls : List LeapSecond) :
    Spec.LeapWF ls ↔ leapFirstOk ls = true ∧ Spec.LeapStepsOK ls := by
  cases ls with
  | nil => simp [Spec.LeapWF, leapFirstOk]
  | cons l rest =>
    simp only [Spec.LeapWF, leapFirstOk, Bool.and_eq_true, decide_eq_true_eq, beq_iff_eq, satAbsI32_eq_one_iff]

theorem leapStage_ok_iff (ls : List LeapSecond) (k : Except TzError Unit) (hr : Spec.LeapInRange ls) :
    leapStage ls k = .ok () ↔ Spec.LeapWF ls ∧ k = .ok () := by
  unfold leapStage
  rw [leapWF_iff]
  have h2 := checkLeapPairs_ok_iff ls hr
  cases hfo : leapFirstOk ls
  · simp
  · cases hc : checkLeapPairs ls with
    | error e =>
      rw [hc] at h2
      simp only [reduceCtorEq, false_iff] at h2
      simp [h2]
    | ok u =>
      have hs := h2.1 (by rw [hc])
      simp [hs]

theorem leapStage_err (ls : List LeapSecond) (k : Except TzError Unit) (hr : Spec.LeapInRange ls) (e : TzError)
    (h : leapStage ls k = .error e) :
    (e = .timeZone .invalidLeapSecond ∧ ¬ Spec.LeapWF ls) ∨ (Spec.LeapWF ls ∧ k = .error e) := by
  unfold leapStage at h
  rw [leapWF_iff]
  have h2 := checkLeapPairs_ok_iff ls hr
  cases hfo : leapFirstOk ls
  · rw [hfo] at h
    simp only [Bool.not_false, if_true] at h
    cases h
    exact .inl ⟨rfl, by simp⟩
  · rw [hfo] at h
    simp only [Bool.not_true, Bool.false_eq_true, if_false] at h
    cases hc : checkLeapPairs ls with
    | error e' =>
      rw [hc] at h; cases h
      rw [hc] at h2
      simp only [reduceCtorEq, false_iff] at h2
      exact .inl ⟨checkLeapPairs_err _ _ hc, fun hh => h2 hh.2⟩
    | ok u =>
      rw [hc] at h
      exact .inr ⟨⟨rfl, h2.1 (by rw [hc])⟩, h⟩

theorem ruleStage_ok_iff (z : TimeZone) : ruleStage z = .ok () ↔ Spec.RuleConsistent z := by
  unfold ruleStage Spec.RuleConsistent
  cases hr : z.extraRule with
  | none => simp
  | some r =>
  cases hl : z.transitions.getLast? with
  | none => simp
  | some last =>
    simp only
    cases hu : unixLeapTimeToUnixTime z.leapSeconds last.unixLeapTime with
    | error e => simp
    | ok ut =>
      simp only
      cases hf : r.findLocalTimeType ut with
      | error e => simp [hf]
      | ok rt =>
        simp only
        cases heq : (z.localTimeTypes.getD last.localTimeTypeIndex default).equal rt
        · have : ¬ (z.localTimeTypes.getD last.localTimeTypeIndex default) = rt := by
            rw [← equal_iff, heq]; simp
          simp only [Bool.not_false, if_true, reduceCtorEq, false_iff]
          rintro ⟨ut', rt', h1, h2, h3⟩
          cases h1
          rw [hf] at h2; cases h2
          exact this h3.symm
        · have := (equal_iff _ _).1 heq
          simp only [Bool.not_true, Bool.false_eq_true, if_false, true_iff]
          exact ⟨ut, rt, rfl, hf, this.symm⟩

theorem ruleStage_err (z : TimeZone) (e : TzError) (h : ruleStage z = .error e) :
    (e = .timeZone .inconsistentExtraRule ∧
      ∃ r last ut rt, z.extraRule = some r ∧ z.transitions.getLast? = some last ∧
        unixLeapTimeToUnixTime z.leapSeconds last.unixLeapTime = .ok ut ∧ r.findLocalTimeType ut = .ok rt ∧
        rt ≠ z.localTimeTypes.getD last.localTimeTypeIndex default) ∨
    (e = .outOfRange ∧
      ∃ r last, z.extraRule = some r ∧ z.transitions.getLast? = some last ∧
        (unixLeapTimeToUnixTime z.leapSeconds last.unixLeapTime = .error e ∨
         ∃ ut, unixLeapTimeToUnixTime z.leapSeconds last.unixLeapTime = .ok ut ∧ r.findLocalTimeType ut = .error e)) := by
  unfold ruleStage at h
  split at h
  · rename_i r last hr hl
    simp only at h
    cases hu : unixLeapTimeToUnixTime z.leapSeconds last.unixLeapTime with
    | error e' =>
      rw [hu] at h; cases h
      exact .inr ⟨leapToUnix_err _ _ _ hu, r, last, hr, hl, .inl hu⟩
    | ok ut =>
      rw [hu] at h
      simp only at h
      cases hf : r.findLocalTimeType ut with
      | error e' =>
        rw [hf] at h; cases h
        exact .inr ⟨ruleFind_err _ _ _ hf, r, last, hr, hl, .inr ⟨ut, hu, hf⟩⟩
      | ok rt =>
        rw [hf] at h
        simp only at h
        cases heq : (z.localTimeTypes.getD last.localTimeTypeIndex default).equal rt
        · rw [heq] at h
          cases h
          refine .inl ⟨rfl, r, last, ut, rt, hr, hl, hu, hf, fun hh => ?_⟩
          rw [hh, (equal_iff _ _).2 rfl] at heq
          cases heq
        · rw [heq] at h; cases h
  · cases h

theorem checkInputs_ok_iff (z : TimeZone) (hr : Spec.LeapInRange z.leapSeconds) :
    z.checkInputs = .ok () ↔ Spec.WFZone z := by
  rw [zoneCheckInputs_eq]
  unfold Spec.WFZone Spec.IndexesOK
  by_cases h0 : z.localTimeTypes.length = 0
  · rw [if_pos h0]
    have : z.localTimeTypes = [] := List.length_eq_zero_iff.mp h0
    simp [this]
  · rw [if_neg h0]
    have hne : z.localTimeTypes ≠ [] := fun h => h0 (by rw [h]; rfl)
    have hct := checkTransitions_ok_iff z.localTimeTypes.length z.transitions
    cases hc : checkTransitions z.localTimeTypes.length z.transitions with
    | error e =>
      rw [hc] at hct
      simp only [reduceCtorEq, false_iff] at hct ⊢
      rintro ⟨_, hi, hs, _⟩
      exact hct ⟨hi, hs⟩
    | ok u =>
      obtain ⟨hi, hs⟩ := hct.1 (by rw [hc])
      simp only
      rw [leapStage_ok_iff _ _ hr, ruleStage_ok_iff]
      exact ⟨fun h => ⟨hne, hi, hs, h.1, h.2⟩, fun h => ⟨h.2.2.2.1, h.2.2.2.2⟩⟩

/-- what each error of the constructor blames -/
def Blame (z : TimeZone) : TzError → Prop
  | .timeZone .noLocalTimeType => z.localTimeTypes = []
  | .timeZone .invalidLocalTimeTypeIndex => z.localTimeTypes ≠ [] ∧ ¬ Spec.IndexesOK z
  | .timeZone .invalidTransition => z.localTimeTypes ≠ [] ∧ ¬ Spec.StrictlyIncreasing z.transitions
  | .timeZone .invalidLeapSecond =>
      z.localTimeTypes ≠ [] ∧ Spec.IndexesOK z ∧ Spec.StrictlyIncreasing z.transitions ∧ ¬ Spec.LeapWF z.leapSeconds
  | .timeZone .inconsistentExtraRule =>
      z.localTimeTypes ≠ [] ∧ Spec.IndexesOK z ∧ Spec.StrictlyIncreasing z.transitions ∧ Spec.LeapWF z.leapSeconds ∧
      ∃ r last ut rt, z.extraRule = some r ∧ z.transitions.getLast? = some last ∧
        unixLeapTimeToUnixTime z.leapSeconds last.unixLeapTime = .ok ut ∧ r.findLocalTimeType ut = .ok rt ∧
        rt ≠ z.localTimeTypes.getD last.localTimeTypeIndex default
  | e =>
      -- the rule could not be evaluated at the last transition's instant: the evaluation's own error
      z.localTimeTypes ≠ [] ∧ Spec.IndexesOK z ∧ Spec.StrictlyIncreasing z.transitions ∧ Spec.LeapWF z.leapSeconds ∧
      ∃ r last, z.extraRule = some r ∧ z.transitions.getLast? = some last ∧
        (unixLeapTimeToUnixTime z.leapSeconds last.unixLeapTime = .error e ∨
         ∃ ut, unixLeapTimeToUnixTime z.leapSeconds last.unixLeapTime = .ok ut ∧ r.findLocalTimeType ut = .error e)

theorem checkInputs_error_blames (z : TimeZone) (hr : Spec.LeapInRange z.leapSeconds) (e : TzError)
    (h : z.checkInputs = .error e) : Blame z e := by
  rw [zoneCheckInputs_eq] at h
  by_cases h0 : z.localTimeTypes.length = 0
  · rw [if_pos h0] at h
    cases h
    exact List.length_eq_zero_iff.mp h0
  · rw [if_neg h0] at h
    have hne : z.localTimeTypes ≠ [] := fun h => h0 (by rw [h]; rfl)
    cases hc : checkTransitions z.localTimeTypes.length z.transitions with
    | error e' =>
      rw [hc] at h
      cases h
      rcases checkTransitions_err _ _ _ hc with ⟨rfl, hn⟩ | ⟨rfl, hn⟩
      · exact ⟨hne, hn⟩
      · exact ⟨hne, hn⟩
    | ok u =>
      obtain ⟨hi, hs⟩ := (checkTransitions_ok_iff _ _).1 (show _ = Except.ok () by rw [hc])
      rw [hc] at h
      simp only at h
      rcases leapStage_err _ _ hr e h with ⟨rfl, hn⟩ | ⟨hw, hk⟩
      · exact ⟨hne, hi, hs, hn⟩
      · rcases ruleStage_err z e hk with ⟨rfl, hex⟩ | ⟨rfl, hex⟩
        · exact ⟨hne, hi, hs, hw, hex⟩
        · exact ⟨hne, hi, hs, hw, hex⟩

end TzVerif.Proofs
