/-
Helper lemmas for C13 (zone constructor). INTERFACE used by Properties/C13.lean.
-/
import TzVerif.Model.TimeZone
import TzVerif.Spec.Zone

namespace TzVerif.Proofs
open TzVerif.Model

theorem satSub_ge_iff (a b m : Int) (ha : i64Min ≤ a ∧ a ≤ i64Max) (hb : i64Min ≤ b ∧ b ≤ i64Max)
    (hm : i64Min < m ∧ m ≤ i64Max) : satSubI64 a b ≥ m ↔ a - b ≥ m := by
  sorry

theorem satAbs_satSub_eq_one_iff (a b : Int) (ha : i32Min ≤ a ∧ a ≤ i32Max) (hb : i32Min ≤ b ∧ b ≤ i32Max) :
    satAbsI32 (satSubI32 a b) = 1 ↔ (a - b = 1 ∨ a - b = -1) := by
  sorry

theorem checkInputs_ok_iff (z : TimeZone) (hr : Spec.LeapInRange z.leapSeconds) :
    z.checkInputs = .ok () ↔ Spec.WFZone z := by
  sorry

/-- what each error of the constructor blames -/
def Blame (z : TimeZone) : TzError → Prop
  | .timeZone .noLocalTimeType => z.localTimeTypes = []
  | .timeZone .invalidLocalTimeTypeIndex => z.localTimeTypes ≠ [] ∧ ¬ Spec.IndexesOK z
  | .timeZone .invalidTransition => z.localTimeTypes ≠ [] ∧ ¬ Spec.StrictlyIncreasing z.transitions
  | .timeZone .invalidLeapSecond =>
      z.localTimeTypes ≠ [] ∧ Spec.IndexesOK z ∧ Spec.StrictlyIncreasing z.transitions ∧ ¬ Spec.LeapWF z.leapSeconds
  | .timeZone .inconsistentExtraRule =>
      z.localTimeTypes ≠ [] ∧ Spec.IndexesOK z ∧ Spec.StrictlyIncreasing z.transitions ∧ Spec.LeapWF z.leapSeconds ∧
      ∃ r last ut rt, z.extraRule = some r ∧ z.transitions.getLast? = some last ∧
        unixLeapTimeToUnixTime z.leapSeconds last.unixLeapTime = .ok ut ∧ r.findLocalTimeType ut = .ok rt ∧
        rt ≠ z.localTimeTypes.getD last.localTimeTypeIndex default
  | e =>
      -- the rule could not be evaluated at the last transition's instant: the evaluation's own error
      z.localTimeTypes ≠ [] ∧ Spec.IndexesOK z ∧ Spec.StrictlyIncreasing z.transitions ∧ Spec.LeapWF z.leapSeconds ∧
      ∃ r last, z.extraRule = some r ∧ z.transitions.getLast? = some last ∧
        (unixLeapTimeToUnixTime z.leapSeconds last.unixLeapTime = .error e ∨
         ∃ ut, unixLeapTimeToUnixTime z.leapSeconds last.unixLeapTime = .ok ut ∧ r.findLocalTimeType ut = .error e)

theorem checkInputs_error_blames (z : TimeZone) (hr : Spec.LeapInRange z.leapSeconds) (e : TzError)
    (h : z.checkInputs = .error e) : Blame z e := by
  sorry

theorem lttNew_ok_iff (off : Int) (dst : Bool) (name : Option (List Nat)) (t : LocalTimeType) :
    LocalTimeType.new off dst name = .ok t ↔
      (t = { utOffset := off, isDst := dst, name := name } ∧ off ≠ i32Min ∧
       (match name with
        | none => True
        | some n => 3 ≤ n.length ∧ n.length ≤ 7 ∧ ∀ b ∈ n, isDesignationChar b = true)) := by
  sorry

theorem lttNew_errors (off : Int) (dst : Bool) (name : Option (List Nat)) (e : LocalTimeTypeError)
    (h : LocalTimeType.new off dst name = .error e) :
    (e = .invalidUtcOffset ∧ off = i32Min) ∨
    (∃ n, name = some n ∧ off ≠ i32Min ∧
      ((e = .invalidTimeZoneDesignationLength ∧ ¬ (3 ≤ n.length ∧ n.length ≤ 7)) ∨
       (e = .invalidTimeZoneDesignationChar ∧ 3 ≤ n.length ∧ n.length ≤ 7 ∧ ∃ b ∈ n, isDesignationChar b = false))) := by
  sorry

/-- the character class is exactly [A-Za-z0-9+-] -/
theorem isDesignationChar_iff (b : Nat) :
    isDesignationChar b = true ↔
      ((48 ≤ b ∧ b ≤ 57) ∨ (65 ≤ b ∧ b ≤ 90) ∨ (97 ≤ b ∧ b ≤ 122) ∨ b = 43 ∨ b = 45) := by
  sorry

theorem equal_iff (a b : LocalTimeType) : a.equal b = true ↔ a = b := by
  sorry

end TzVerif.Proofs
