/-
The executable search semantics used by the driver's oracles (`Spec.validSet`, `Spec.gapSet` in
`Spec/Lookup.lean`) is what the search returns. INTERFACE used by Properties/C05.lean / C06.lean.
-/
import TzVerif.Model.Find
import TzVerif.Spec.Lookup
import TzVerif.Proofs.SpecLookup
import TzVerif.Proofs.Search
import TzVerif.Proofs.SearchRule

namespace TzVerif.Proofs
open TzVerif.Model TzVerif.Gen

/-- the zone is one the constructor accepts, with values in the Rust types' ranges, and its rule (if a DST
    rule) satisfies C04's hypotheses -/
def ZoneGood (z : TimeZone) : Prop :=
  z.localTimeTypes ≠ [] ∧ Spec.IndexesOK z ∧ ZoneOK z ∧ Spec.LeapInRange z.leapSeconds ∧ ZoneRuleOK z ∧
  (∀ t ∈ Spec.zoneTypes z, i32Min < t.utOffset ∧ t.utOffset ≤ i32Max)

/-- searched fields in the ranges of their Rust types, the year at least one year inside the year guard -/
def FieldsGood (y mo d h mi s : Int) : Prop :=
  i32Min + 3 ≤ y ∧ y ≤ i32Max - 3 ∧ 0 ≤ mo ∧ mo ≤ 255 ∧ 0 ≤ d ∧ d ≤ 255 ∧ 0 ≤ h ∧ h ≤ 255 ∧ 0 ≤ mi ∧ mi ≤ 255 ∧ 0 ≤ s ∧ s ≤ 255

theorem validSet_mem_iff (z : TimeZone) (c u : Int) (t : LocalTimeType) :
    (u, t) ∈ Spec.validSet z c ↔ (t ∈ Spec.zoneTypes z ∧ u = c - t.utOffset ∧ Spec.zoneExpect z u = .type t) := by
  sorry

/-- the valid results of the search are exactly the executable spec's set (as sets of (instant, type)) -/
theorem search_is_validSet (y mo d h mi s ns : Int) (z : TimeZone) (rs : List Found)
    (hz : ZoneGood z) (hfd : FieldsGood y mo d h mi s)
    (hf : findDateTime y mo d h mi s ns z = .ok rs) (u : Int) (t : LocalTimeType) :
    (u, t) ∈ Spec.validSet z (Spec.seconds y mo d h mi s) ↔
      ∃ x, Found.normal x ∈ rs ∧ x.unixTime = u ∧ x.localTimeType = t := by
  sorry

end TzVerif.Proofs
