/-
The executable search semantics used by the driver's oracles (`Spec.validSet`, `Spec.gapSet` in
`Spec/Lookup.lean`) is what the search returns. INTERFACE used by Properties/C05.lean / C06.lean.
-/
import TzVerif.Model.Find
import TzVerif.Spec.Lookup
import TzVerif.Proofs.SpecLookup
import TzVerif.Proofs.Search
import TzVerif.Proofs.SearchRule
import TzVerif.Proofs.NoPanic

namespace TzVerif.Proofs
open TzVerif.Model TzVerif.Gen

/-- the zone is one the constructor accepts, with values in the Rust types' ranges, and its rule (if a DST
    rule) satisfies C04's hypotheses -/
def ZoneGood (z : TimeZone) : Prop :=
  z.localTimeTypes ≠ [] ∧ Spec.IndexesOK z ∧ ZoneOK z ∧ Spec.LeapInRange z.leapSeconds ∧ ZoneRuleOK z ∧
  (∀ t ∈ Spec.zoneTypes z, i32Min < t.utOffset ∧ t.utOffset ≤ i32Max)

/-- searched fields in the ranges of their Rust types, the year at least one year inside the year guard -/
def FieldsGood (y mo d h mi s : Int) : Prop :=
  i32Min + 3 ≤ y ∧ y ≤ i32Max - 3 ∧ 0 ≤ mo ∧ mo ≤ 255 ∧ 0 ≤ d ∧ d ≤ 255 ∧ 0 ≤ h ∧ h ≤ 255 ∧ 0 ≤ mi ∧ mi ≤ 255 ∧ 0 ≤ s ∧ s ≤ 255

theorem validSet_mem_iff (z : TimeZone) (c u : Int) (t : LocalTimeType) :
    (u, t) ∈ Spec.validSet z c ↔ (t ∈ Spec.zoneTypes z ∧ u = c - t.utOffset ∧ Spec.zoneExpect z u = .type t) := by
  unfold Spec.validSet
  rw [List.mem_filterMap]
  constructor
  · rintro ⟨t', ht', h⟩
    dsimp only at h
    split at h
    · rename_i he
      simp only [Option.some.injEq, Prod.mk.injEq] at h
      obtain ⟨h1, h2⟩ := h
      subst h2
      subst h1
      exact ⟨ht', rfl, he⟩
    · cases h
  · rintro ⟨h1, h2, h3⟩
    refine ⟨t, h1, ?_⟩
    dsimp only
    subst h2
    rw [if_pos h3]

/-! ### whatever the zone answers is one of its types -/

theorem getD_mem_types (l : List LocalTimeType) (i : Nat) (hi : i < l.length) : l.getD i default ∈ l := by
  rw [getD_eq_getElem' l i _ hi]
  exact List.getElem_mem _

theorem typeIndexAt_lt (z : TimeZone) (hne : z.localTimeTypes ≠ []) (hi : Spec.IndexesOK z) (L : Int) :
    Spec.typeIndexAt z.transitions L < z.localTimeTypes.length := by
  unfold Spec.typeIndexAt Spec.lastAtOrBefore
  split
  · exact List.length_pos_iff.mpr hne
  · rename_i t ht
    exact hi t (List.mem_filter.mp (List.mem_of_getLast? ht)).1

theorem mem_zoneTypes_base (z : TimeZone) (t : LocalTimeType) (h : t ∈ z.localTimeTypes) : t ∈ Spec.zoneTypes z := by
  unfold Spec.zoneTypes
  dsimp only
  rw [List.mem_eraseDups]
  exact List.mem_append_left _ h

theorem ruleExpect_mem (z : TimeZone) (r : TransitionRule) (hr : z.extraRule = some r) (u : Int) (t : LocalTimeType)
    (h : Spec.ruleExpect r u = .type t) : t ∈ Spec.zoneTypes z := by
  unfold Spec.zoneTypes
  dsimp only
  rw [List.mem_eraseDups, hr]
  apply List.mem_append_right
  cases r with
  | fixed t' =>
    simp only [Spec.ruleExpect, Spec.Expect.type.injEq] at h
    subst h
    exact List.mem_singleton.mpr rfl
  | alternate a =>
    simp only [Spec.ruleExpect] at h
    split at h
    · cases h
    · split at h
      · injection h with h; subst h; simp
      · injection h with h; subst h; simp

theorem zoneExpect_mem (z : TimeZone) (hne : z.localTimeTypes ≠ []) (hi : Spec.IndexesOK z) (u : Int) (t : LocalTimeType)
    (h : Spec.zoneExpect z u = .type t) : t ∈ Spec.zoneTypes z := by
  unfold Spec.zoneExpect at h
  split at h
  · split at h
    · rename_i r hr
      exact ruleExpect_mem z r hr u t h
    · injection h with h
      subst h
      exact mem_zoneTypes_base z _ (getD_mem_types _ _ (List.length_pos_iff.mpr hne))
  · dsimp only at h
    split at h
    · split at h
      · rename_i r hr
        exact ruleExpect_mem z r hr u t h
      · cases h
    · injection h with h
      subst h
      exact mem_zoneTypes_base z _ (getD_mem_types _ _ (typeIndexAt_lt z hne hi _))

/-! ### ranges -/

/-- an accepted search has passed the field check -/
theorem find_fields_valid (y mo d h mi s ns : Int) (z : TimeZone) (rs : List Found)
    (hf : findDateTime y mo d h mi s ns z = .ok rs) : 1 ≤ mo ∧ mo ≤ 12 ∧ 1 ≤ d ∧ d ≤ 31 := by
  unfold findDateTime at hf
  split at hf
  · split at hf
    · cases hf
    · rename_i x hx
      rw [dtNew_eq_expected] at hx
      unfold dtNewExpected at hx
      repeat' split at hx
      all_goals try contradiction
      omega
  · dsimp only at hf
    split at hf
    · cases hf
    · rename_i hc
      obtain ⟨a1, a2, a3, a4, -⟩ := checkInputs_ok _ _ _ _ _ _ _ _ hc
      have := monthLen_le y mo
      omega

theorem seconds_range (y mo d h mi s : Int) (hfd : FieldsGood y mo d h mi s)
    (hv : 1 ≤ mo ∧ mo ≤ 12 ∧ 1 ≤ d ∧ d ≤ 31) :
    -70000000000000000 ≤ Spec.seconds y mo d h mi s ∧ Spec.seconds y mo d h mi s ≤ 70000000000000000 := by
  obtain ⟨f1, f2, f3, f4, f5, f6, f7, f8, f9, f10, f11, f12⟩ := hfd
  have := unixTime_range y mo d h mi s (by simp only [InI32, i32Min, i32Max] at *; omega) ⟨hv.1, hv.2.1⟩
    ⟨hv.2.2.1, by omega⟩ ⟨f7, f8⟩ ⟨f9, f10⟩ ⟨f11, f12⟩
  rw [unixTime_eq_seconds y mo d h mi s ⟨hv.1, hv.2.1⟩] at this
  exact this

theorem zoneRuleOK_of_noDst (z : TimeZone) : NoDstRule z ∨ ∃ a, z.extraRule = some (.alternate a) := by
  unfold NoDstRule
  cases h : z.extraRule with
  | none => exact Or.inl trivial
  | some r =>
    cases r with
    | fixed t => exact Or.inl trivial
    | alternate a => exact Or.inr ⟨a, rfl⟩

theorem type_of_lookup (z : TimeZone) (hz : ZoneGood z) (u : Int) (hu : Inner u) (t : LocalTimeType) :
    z.findLocalTimeType u = .ok t ↔ Spec.zoneExpect z u = .type t := by
  obtain ⟨-, -, hok, hl, hr, -⟩ := hz
  rw [zoneExpect_eq z hok hl hr u hu]
  cases Spec.zoneExpect z u with
  | type t' =>
    constructor
    · intro h; injection h with h; rw [h]
    · intro h; injection h with h; rw [h]
  | noAvail => constructor <;> intro h <;> cases h
  | outOfRange => constructor <;> intro h <;> cases h

/-- the valid results of the search are exactly the executable spec's set (as sets of (instant, type)) -/
theorem search_is_validSet (y mo d h mi s ns : Int) (z : TimeZone) (rs : List Found)
    (hz : ZoneGood z) (hfd : FieldsGood y mo d h mi s)
    (hf : findDateTime y mo d h mi s ns z = .ok rs) (u : Int) (t : LocalTimeType) :
    (u, t) ∈ Spec.validSet z (Spec.seconds y mo d h mi s) ↔
      ∃ x, Found.normal x ∈ rs ∧ x.unixTime = u ∧ x.localTimeType = t := by
  have hz' := hz
  obtain ⟨hne, hidx, hok, hl, hr, hoff⟩ := hz'
  have hfd' := hfd
  obtain ⟨f1, f2, f3, f4, f5, f6, f7, f8, f9, f10, f11, f12⟩ := hfd'
  have hv := find_fields_valid y mo d h mi s ns z rs hf
  have hc := seconds_range y mo d h mi s hfd hv
  rw [validSet_mem_iff]
  constructor
  · rintro ⟨hm, hu, he⟩
    have ho := hoff t hm
    have hin : Inner u := by
      simp only [Inner, i64Min, i64Max, i32Min, i32Max] at *
      omega
    have hlk := (type_of_lookup z hz u hin t).mpr he
    have hu64 : i64Min ≤ u ∧ u ≤ i64Max := by
      simp only [Inner, i64Min, i64Max] at *
      omega
    rcases zoneRuleOK_of_noDst z with hnd | ⟨a, ha⟩
    · exact search_complete y mo d h mi s ns z rs hok hnd hf u t hu64 hlk (by omega)
    · have hra : RuleOK a := by
        unfold ZoneRuleOK at hr
        rw [ha] at hr
        exact hr
      exact rule_search_complete y mo d h mi s ns z a rs hok ha hra hf u t hu64 hlk (by omega) ⟨f7, f9, f11⟩
  · rintro ⟨x, hx, rfl, rfl⟩
    have hent := find_entries_inv y mo d h mi s ns z rs f7 f9 f11 hf _ hx
    dsimp only at hent
    obtain ⟨-, -, hmin, hmax, -⟩ := hent
    have hin : Inner x.unixTime := by
      rw [c_min] at hmin
      rw [c_max] at hmax
      simp only [Inner, i64Min, i64Max]
      omega
    have hs : z.findLocalTimeType x.unixTime = .ok x.localTimeType ∧
        x.unixTime + x.localTimeType.utOffset = Spec.seconds y mo d h mi s := by
      rcases zoneRuleOK_of_noDst z with hnd | ⟨a, ha⟩
      · exact search_sound y mo d h mi s ns z rs hok hnd hf x hx
      · have hra : RuleOK a := by
          unfold ZoneRuleOK at hr
          rw [ha] at hr
          exact hr
        exact rule_search_sound y mo d h mi s ns z a rs hok ha hra hf x hx ⟨f7, f9, f11⟩ ⟨f1, f2⟩
    have he := (type_of_lookup z hz _ hin _).mp hs.1
    exact ⟨zoneExpect_mem z hne hidx _ _ he, by omega, he⟩

end TzVerif.Proofs
