/-
The translated source (Generated/Src.lean, regenerated from /repo/src on every run by tools/rs2lean.py) equals the
hand-written model: src/datetime/find.rs `find_date_time`, the local-time search behind `DateTime::find` and
`DateTime::find_n` (C05, C06, C14, C17).

The source pushes results into a `&mut impl DateTimeList`; the translation threads the pushed sequence through and
returns it. The source's `get_time` closure memoises its last answer in `last_cached_time`; the translation keeps
that state (it is threaded through the loop); the model has no cache — the equality below therefore contains the
proof that the cache is transparent.

The proof never restates generated text. The `let`s of the translated function are lifted into the context
(`extract_lets`); the closure `get_time` is replaced by its specification `GetTimeSpec` (memo invariant
`CacheInv`); each of the two loops is cut out of the goal with `generalize … Src.forInR _ _ _ = R` and handed to
the loop lemma of SrcEqFindLoops.lean (`trans_loop`, `rule_loop`), whose hypothesis `hf` — one iteration of the
translated body against one iteration of the model (`transStep`, `ruleStep`) — is proved here by following the
body's branches.
-/
import TzVerif.SrcBase
import TzVerif.Model.Find
import TzVerif.Proofs.SrcEqZone
import TzVerif.Proofs.SrcEqFindLoops

namespace TzVerif.Proofs.SrcEq
open TzVerif TzVerif.Model TzVerif.Gen

/-- the whole search, both loops, the memoising closure and every early return included -/
theorem find_date_time_eq (y mo d h mi s ns : Int) (z : TimeZone) :
    Src.find_date_time [] y mo d h mi s ns z = findDateTime y mo d h mi s ns z := by
  unfold Src.find_date_time
  -- the `let`s of the translated function, the closure included, become local definitions
  extract_lets transitions ltts er mk utc c0 get_time pt0 pi0
  -- the closure meets its specification: a hit returns what the invariant says, a miss recomputes
  have hgt : GetTimeSpec z utc get_time := by
    intro c k hc
    have hf := getTime_fresh z utc k
    cases c with
    | none =>
      exact hf
    | some iv =>
      obtain ⟨i, v⟩ := iv
      by_cases hik : i = (k : Int)
      · subst hik
        have := hc k v rfl
        rw [this]
        refine ⟨_, hc, ?_⟩
        simp only [get_time, decide_true, if_true]
      · simp only [get_time, hik, decide_false, Bool.false_eq_true, if_false]
        exact hf
  clear_value get_time
  have hutc : utc = unixTime y mo d h mi s := unix_time_eq y mo d h mi s
  have hmk : mk = mkDateTime y mo d h mi s ns := rfl
  have htr : transitions = z.transitions := rfl
  have hlt : ltts = z.localTimeTypes := rfl
  have her : er = z.extraRule := rfl
  have hc0 : c0 = none := rfl
  have hpt0 : pt0 = i64Min := rfl
  have hpi0 : pi0 = ((0 : Nat) : Int) := rfl
  clear_value utc mk transitions ltts er c0 pt0 pi0
  subst hutc hmk htr hlt her hc0 hpt0 hpi0
  unfold findDateTime
  -- no transition and no rule
  by_cases h0 : z.transitions.isEmpty = true ∧ z.extraRule.isNone = true
  · rw [if_pos h0, if_pos (by simp only [Bool.and_eq_true]; exact h0), dt_new_eq]
    have : Src.idx z.localTimeTypes 0 = z.localTimeTypes.getD 0 default := rfl
    rw [this]
    cases DateTime.new y mo d h mi s ns (z.localTimeTypes.getD 0 default) <;> rfl
  rw [if_neg h0, if_neg (by simp only [Bool.and_eq_true]; exact h0), check_date_time_inputs_eq]
  cases checkDateTimeInputs y mo d h mi s ns with
  | error e => rfl
  | ok u =>
  dsimp -zeta only
  -- the first loop (statement `if !transitions.is_empty() { … for … }`)
  generalize hA : (if (!z.transitions.isEmpty) = true then _ else _ : Src.Flow (Except TzError (List Found)) (List Found)) = A
  have hA' : A = match findTransitionsLoop z (mkDateTime y mo d h mi s ns) ns (unixTime y mo d h mi s) z.extraRule.isSome z.transitions i64Min 0 [] with
      | .error e => .ret (.error e)
      | .ok acc => .val acc := by
    subst hA
    cases htr : z.transitions with
    | nil =>
      rw [if_neg (by decide)]
      rfl
    | cons tr0 rest0 =>
      rw [if_pos (by rfl), ← htr]
      generalize hR : Src.forInR _ _ _ = R
      have hl := trans_loop z (mkDateTime y mo d h mi s ns) ns (unixTime y mo d h mi s) z.extraRule.isSome (z.transitions.length : Int) _
        ?hf z.transitions 0 none [] i64Min 0 (by omega) (CacheInv.none _ _) R hR
      case hf =>
        -- one iteration of the translated body `B` against `transStep`
        intro c acc pt pi index tr hc B hB
        simp only [idx_nat, check_unix_time_eq, unix_leap_time_to_unix_time_eq, dt_from_timespec_and_local_eq,
          Bool.and_eq_true, decide_eq_true_eq] at hB
        unfold transStep
        have hg1 := hgt c pi hc
        cases hgm : getTime z (unixTime y mo d h mi s) pi with
        | error e =>
          rw [hgm] at hg1; dsimp only at hg1 ⊢
          rw [hg1] at hB; subst hB; rfl
        | ok v =>
          obtain ⟨ub, ulb⟩ := v
          rw [hgm] at hg1; dsimp only at hg1 ⊢
          obtain ⟨c1, hc1, hg1⟩ := hg1
          rw [hg1] at hB
          dsimp only at hB
          by_cases h1 : pt ≤ ulb ∧ ulb < tr.unixLeapTime
          · rw [if_pos h1]; rw [if_pos h1] at hB
            cases hcu : checkUnixTime ub with
            | error e => rw [hcu] at hB; dsimp only at hB ⊢; subst hB; rfl
            | ok u => rw [hcu] at hB; dsimp only at hB ⊢; subst hB; exact ⟨c1, hc1, rfl⟩
          · rw [if_neg h1]; rw [if_neg h1] at hB
            cases hm : (decide (index < ↑z.transitions.length - 1) || z.extraRule.isSome) with
            | false =>
              rw [hm] at hB
              rw [if_neg (by decide)]; rw [if_neg (by decide)] at hB
              dsimp only at hB; subst hB; exact ⟨c1, hc1, rfl⟩
            | true =>
              rw [hm] at hB
              rw [if_pos rfl]; rw [if_pos rfl] at hB
              have hg2 := hgt c1 tr.localTimeTypeIndex hc1
              cases hgm2 : getTime z (unixTime y mo d h mi s) tr.localTimeTypeIndex with
              | error e =>
                rw [hgm2] at hg2; dsimp only at hg2 ⊢
                rw [hg2] at hB; subst hB; rfl
              | ok w =>
                obtain ⟨ua, ula⟩ := w
                rw [hgm2] at hg2; dsimp only at hg2 ⊢
                obtain ⟨c2, hc2, hg2⟩ := hg2
                rw [hg2] at hB
                dsimp only at hB
                by_cases h2 : ulb ≥ tr.unixLeapTime ∧ ula < tr.unixLeapTime
                · rw [if_pos h2]; rw [if_pos h2] at hB
                  cases hu : unixLeapTimeToUnixTime z.leapSeconds tr.unixLeapTime with
                  | error e => rw [hu] at hB; dsimp only at hB ⊢; subst hB; rfl
                  | ok tut =>
                    rw [hu] at hB; dsimp only at hB ⊢
                    cases hb : DateTime.fromTimespecAndLocal tut ns (z.localTimeTypes.getD pi default) with
                    | error e => rw [hb] at hB; dsimp only at hB ⊢; subst hB; rfl
                    | ok b =>
                      rw [hb] at hB; dsimp only at hB ⊢
                      cases ha : DateTime.fromTimespecAndLocal tut ns (z.localTimeTypes.getD tr.localTimeTypeIndex default) with
                      | error e => rw [ha] at hB; dsimp only at hB ⊢; subst hB; rfl
                      | ok a => rw [ha] at hB; dsimp only at hB ⊢; subst hB; exact ⟨c2, hc2, rfl⟩
                · rw [if_neg h2]; rw [if_neg h2] at hB
                  dsimp only at hB; subst hB; exact ⟨c2, hc2, rfl⟩
      clear hR
      cases hfl : findTransitionsLoop z (mkDateTime y mo d h mi s ns) ns (unixTime y mo d h mi s) z.extraRule.isSome z.transitions i64Min 0 [] with
      | error e => rw [hfl] at hl; dsimp only at hl; subst hl; rfl
      | ok acc => rw [hfl] at hl; dsimp only at hl; obtain ⟨c', pt', pi', hl⟩ := hl; subst hl; rfl
  rw [hA']; clear hA hA' A
  -- the rule part
  extract_lets +onlyGivenNames mk' utc'
  have hmk' : mk' = mkDateTime y mo d h mi s ns := rfl
  have hutc' : utc' = unixTime y mo d h mi s := rfl
  clear_value mk' utc'
  subst hmk' hutc'
  cases findTransitionsLoop z (mkDateTime y mo d h mi s ns) ns (unixTime y mo d h mi s) z.extraRule.isSome z.transitions i64Min 0 [] with
  | error e => rfl
  | ok acc =>
  dsimp -zeta only
  cases z.extraRule with
  | none => rfl
  | some rule =>
  cases rule with
  | fixed ltt =>
    dsimp only
    rw [check_unix_time_eq]
    cases z.transitions.getLast? with
    | none =>
      dsimp only
      rw [if_pos rfl]
      cases checkUnixTime (unixTime y mo d h mi s - ltt.utOffset) <;> rfl
    | some last =>
      dsimp only
      rw [unix_leap_time_to_unix_time_eq]
      cases unixLeapTimeToUnixTime z.leapSeconds last.unixLeapTime with
      | error e => rfl
      | ok t =>
        dsimp only
        cases decide (unixTime y mo d h mi s - ltt.utOffset ≥ t) with
        | false => rfl
        | true =>
          dsimp only
          rw [if_pos rfl]
          cases checkUnixTime (unixTime y mo d h mi s - ltt.utOffset) <;> rfl
  | alternate a =>
    dsimp -zeta only
    extract_lets stdOff dstOff utStd utDst st et att0 sortedS attSw att tstart tend ats times0 sortedM times tStart tEnd steps prev
    rw [check_unix_time_eq utStd, check_unix_time_eq utDst]
    cases checkUnixTime utStd with
    | error e => rfl
    | ok u1 =>
    dsimp -zeta only
    cases checkUnixTime utDst with
    | error e => rfl
    | ok u2 =>
    dsimp -zeta only
    have hg : (!(decide (-2147483648 + 2 ≤ y) && decide (y ≤ 2147483647 - 2)))
        = (!(decide (i32Min + guardFindYearMarginLow ≤ y) && decide (y ≤ i32Max - guardFindYearMarginHigh))) := rfl
    rw [hg]
    cases (!(decide (i32Min + guardFindYearMarginLow ≤ y) && decide (y ≤ i32Max - guardFindYearMarginHigh))) with
    | true => rfl
    | false =>
    rw [if_neg (by decide), if_neg (by decide)]
    have hatt0 : att0 = times0 := by
      simp only [att0, times0, rule_day_unix_time_eq]; rfl
    have hsorted : sortedS = sortedM := by
      simp only [sortedS, sortedM, hatt0, windows2All_eq]
    have hatt : att = times := by
      simp only [att, times, attSw, hsorted, hatt0, swapPairs_eq]
      cases sortedM <;> rfl
    have hats : ats.map toStep = steps := by
      simp only [ats, steps, hsorted]
      cases sortedM <;> rfl
    clear_value att ats times steps
    subst hatt hats
    have hlit : (-9223372036854775808 : Int) = i64Min := rfl
    rw [hlit]
    dsimp only [prev]
    clear_value att0 sortedS attSw tstart tend times0 sortedM tStart tEnd
    clear hg hatt0 hsorted prev
    -- both arms of `transitions.last()` leave the same goal, for a previous transition time `P`
    rcases z.transitions.getLast? with _ | last
    case' none => dsimp only; generalize i64Min = P
    case' some =>
      dsimp only
      rw [unix_leap_time_to_unix_time_eq]
      rcases unixLeapTimeToUnixTime z.leapSeconds last.unixLeapTime with e | P
      case' error => exact rfl
      case' ok => dsimp only
    all_goals
      have hp := position_drop0 P att ats
      rw [toSteps_zip] at hp
      cases hpos : Src.position (fun unix_time => decide (P < unix_time)) att with
      | none =>
        rw [hpos] at hp; dsimp only at hp ⊢
        rw [hp, findRuleLoop]
      | some k =>
        rw [hpos] at hp; dsimp only at hp ⊢
        generalize hR : Src.forInR _ _ _ = R
        have hl := rule_loop (mkDateTime y mo d h mi s ns) ns _ ?hf _ acc P R hR
        case hf =>
          intro acc prev t x B hB
          obtain ⟨b, a, ub, ua⟩ := x
          simp only [dt_from_timespec_and_local_eq, Bool.and_eq_true, decide_eq_true_eq] at hB
          unfold ruleStep toStep
          dsimp only
          by_cases h1 : prev ≤ ub ∧ ub < t
          · rw [if_pos h1]; rw [if_pos h1] at hB
            dsimp only at hB ⊢; subst hB; rfl
          · rw [if_neg h1]; rw [if_neg h1] at hB
            by_cases h2 : ub ≥ t ∧ ua < t
            · rw [if_pos h2]; rw [if_pos h2] at hB
              cases hb : DateTime.fromTimespecAndLocal t ns b with
              | error e => rw [hb] at hB; dsimp only at hB ⊢; subst hB; rfl
              | ok b' =>
                rw [hb] at hB; dsimp only at hB ⊢
                cases ha : DateTime.fromTimespecAndLocal t ns a with
                | error e => rw [ha] at hB; dsimp only at hB ⊢; subst hB; rfl
                | ok a' => rw [ha] at hB; dsimp only at hB ⊢; subst hB; rfl
            · rw [if_neg h2]; rw [if_neg h2] at hB
              dsimp only at hB ⊢; subst hB; rfl
        rw [hp] at hl
        clear hR
        cases hfr : findRuleLoop (mkDateTime y mo d h mi s ns) ns (dropUntil P (att.zip (List.map toStep ats))) P acc with
        | error e => rw [hfr] at hl; dsimp only at hl; subst hl; rfl
        | ok acc' => rw [hfr] at hl; dsimp only at hl; obtain ⟨p', hl⟩ := hl; subst hl; rfl

end TzVerif.Proofs.SrcEq
