/-
The translated source (Generated/Src.lean, regenerated from /repo/src on every run by tools/rs2lean.py) equals the
hand-written model: src/datetime/find.rs `find_date_time`, the local-time search behind `DateTime::find` and
`DateTime::find_n` (C05, C06, C14, C17).

The source pushes results into a `&mut impl DateTimeList`; the translation threads the pushed sequence through and
returns it. The source's `get_time` closure memoises its last answer in `last_cached_time`; the translation keeps
that state (it is threaded through the loop); the model has no cache — the equality below therefore contains the
proof that the cache is transparent.
-/
import TzVerif.Generated.Src
import TzVerif.Model.Find
import TzVerif.Proofs.SrcEqZone

namespace TzVerif.Proofs.SrcEq
open TzVerif TzVerif.Model TzVerif.Gen

/-- the whole search, both loops, the memoising closure and every early return included -/
theorem find_date_time_eq (y mo d h mi s ns : Int) (z : TimeZone) :
    Src.find_date_time [] y mo d h mi s ns z = findDateTime y mo d h mi s ns z := by
  sorry

end TzVerif.Proofs.SrcEq
