/-
C11 steps 3–4: one day in month-week-day notation, the other in Julian notation.
The ranges used by `MonthWeekDay::compute_check_infos` are exactly the extremes of the day of the
year over each set of kind years (table check), and the comparison with the Julian day is linear.
-/
import TzVerif.Proofs.ConsistMwdTab

namespace TzVerif.Proofs.CM
open TzVerif.Model TzVerif.Gen

set_option maxRecDepth 100000

/-- table lookup by year -/
def tl (T : List Int) (y : Int) : Int := T.getD (y - 2001).toNat 0

theorem doy_eq_tl (A : RuleDay) : ∀ y ∈ years29, doy A y = tl (tabOf A) y := by
  intro y hy
  simp only [years29, List.mem_cons, List.not_mem_nil, or_false] at hy
  rcases hy with h | h | h | h | h | h | h | h | h | h | h | h | h | h | h | h | h | h | h | h | h | h | h | h | h | h | h | h | h <;>
    subst h <;> rfl

/-- the (day-of-month) ranges of `MonthWeekDay::compute_check_infos` -/
def nrR (m w : Int) : (Int × Int) × (Int × Int) :=
  if w = 5 then
    let nd := tbl DAYS_IN_MONTHS_NORMAL_YEAR (m - 1)
    let ld := if m = 2 then nd + 1 else nd
    ((nd - 6, nd), (ld - 6, ld))
  else
    let r := (w * DAYS_PER_WEEK - 6, w * DAYS_PER_WEEK)
    (r, r)

/-- first / last possible day of the year of `Mm.w.*` in a normal (`false`) or leap (`true`) year -/
def loR (m w : Int) (l : Bool) : Int :=
  if l then tbl CUMUL_DAYS_IN_MONTHS_LEAP_YEAR (m - 1) + (nrR m w).2.1 - 1
  else tbl CUMUL_DAYS_IN_MONTHS_NORMAL_YEAR (m - 1) + (nrR m w).1.1 - 1
def hiR (m w : Int) (l : Bool) : Int :=
  if l then tbl CUMUL_DAYS_IN_MONTHS_LEAP_YEAR (m - 1) + (nrR m w).2.2 - 1
  else tbl CUMUL_DAYS_IN_MONTHS_NORMAL_YEAR (m - 1) + (nrR m w).1.2 - 1

theorem mwdCheckInfos_eq (m w t : Int) :
    mwdCheckInfos m w t =
      { startNormal := (loR m w false * 86400 + t, hiR m w false * 86400 + t),
        endNormal := (loR m w false * 86400 + t - 31536000, hiR m w false * 86400 + t - 31536000),
        startLeap := (loR m w true * 86400 + t, hiR m w true * 86400 + t),
        endLeap := (loR m w true * 86400 + t - 31622400, hiR m w true * 86400 + t - 31622400) } := by
  have c1 : SECONDS_PER_DAY = 86400 := by decide
  have c2 : SECONDS_PER_NORMAL_YEAR = 31536000 := by decide
  have c3 : SECONDS_PER_LEAP_YEAR = 31622400 := by decide
  unfold mwdCheckInfos loR hiR nrR
  by_cases hw : w = 5
  · simp only [hw, if_true, c1, c2, c3, Bool.false_eq_true, if_false]
  · simp only [hw, if_false, c1, c2, c3, Bool.false_eq_true, if_true]

/-- facts about the ranges used in the linear arithmetic -/
theorem range_shape : ∀ m ∈ r12, ∀ w ∈ r5,
    hiR m w false = loR m w false + 6 ∧ hiR m w true = loR m w true + 6 ∧
    loR m w false ≤ loR m w true ∧ loR m w true ≤ loR m w false + 1 ∧ 0 ≤ loR m w false ∧ hiR m w true ≤ 365 := by
  decide +kernel

def rangeFacts (T : List Int) (m w : Int) : Bool :=
  extB ysNN (fun y => tl T y) (loR m w false) (hiR m w false) &&
  extB ysNL (fun y => tl T y) (loR m w false) (hiR m w false) &&
  extB ysLN (fun y => tl T y) (loR m w true) (hiR m w true) &&
  extB ysNN (fun y => tl T (y + 1)) (loR m w false) (hiR m w false) &&
  extB ysNL (fun y => tl T (y + 1)) (loR m w true) (hiR m w true) &&
  extB ysLN (fun y => tl T (y + 1)) (loR m w false) (hiR m w false)

theorem rangeFacts_tab_1 : ∀ w ∈ r5, ∀ d ∈ r7, rangeFacts (tab 1 w d) 1 w = true := by decide +kernel
theorem rangeFacts_tab_2 : ∀ w ∈ r5, ∀ d ∈ r7, rangeFacts (tab 2 w d) 2 w = true := by decide +kernel
theorem rangeFacts_tab_3 : ∀ w ∈ r5, ∀ d ∈ r7, rangeFacts (tab 3 w d) 3 w = true := by decide +kernel
theorem rangeFacts_tab_4 : ∀ w ∈ r5, ∀ d ∈ r7, rangeFacts (tab 4 w d) 4 w = true := by decide +kernel
theorem rangeFacts_tab_5 : ∀ w ∈ r5, ∀ d ∈ r7, rangeFacts (tab 5 w d) 5 w = true := by decide +kernel
theorem rangeFacts_tab_6 : ∀ w ∈ r5, ∀ d ∈ r7, rangeFacts (tab 6 w d) 6 w = true := by decide +kernel
theorem rangeFacts_tab_7 : ∀ w ∈ r5, ∀ d ∈ r7, rangeFacts (tab 7 w d) 7 w = true := by decide +kernel
theorem rangeFacts_tab_8 : ∀ w ∈ r5, ∀ d ∈ r7, rangeFacts (tab 8 w d) 8 w = true := by decide +kernel
theorem rangeFacts_tab_9 : ∀ w ∈ r5, ∀ d ∈ r7, rangeFacts (tab 9 w d) 9 w = true := by decide +kernel
theorem rangeFacts_tab_10 : ∀ w ∈ r5, ∀ d ∈ r7, rangeFacts (tab 10 w d) 10 w = true := by decide +kernel
theorem rangeFacts_tab_11 : ∀ w ∈ r5, ∀ d ∈ r7, rangeFacts (tab 11 w d) 11 w = true := by decide +kernel
theorem rangeFacts_tab_12 : ∀ w ∈ r5, ∀ d ∈ r7, rangeFacts (tab 12 w d) 12 w = true := by decide +kernel

theorem rangeFacts_tab : ∀ m ∈ r12, ∀ w ∈ r5, ∀ d ∈ r7, rangeFacts (tab m w d) m w = true := by
  intro m hm
  simp only [r12, List.mem_cons, List.not_mem_nil, or_false] at hm
  rcases hm with h | h | h | h | h | h | h | h | h | h | h | h <;> subst h
  · exact rangeFacts_tab_1
  · exact rangeFacts_tab_2
  · exact rangeFacts_tab_3
  · exact rangeFacts_tab_4
  · exact rangeFacts_tab_5
  · exact rangeFacts_tab_6
  · exact rangeFacts_tab_7
  · exact rangeFacts_tab_8
  · exact rangeFacts_tab_9
  · exact rangeFacts_tab_10
  · exact rangeFacts_tab_11
  · exact rangeFacts_tab_12

theorem mem29_NN : ∀ y ∈ ysNN, y ∈ years29 ∧ y + 1 ∈ years29 := by decide
theorem mem29_NL : ∀ y ∈ ysNL, y ∈ years29 ∧ y + 1 ∈ years29 := by decide
theorem mem29_LN : ∀ y ∈ ysLN, y ∈ years29 ∧ y + 1 ∈ years29 := by decide

/-! ### The Julian side -/

/-- day of the year of a Julian notation in a normal / leap year -/
def jdoy (J : RuleDay) (l : Bool) : Int :=
  match J with
  | .julian1 n => n - 1 + (if l && n ≥ 60 then 1 else 0)
  | .julian0 n => n
  | .mwd _ _ _ => 0

def jinfos (J : RuleDay) (t : Int) : JulianDayCheckInfos :=
  match J with
  | .julian1 n => julian1CheckInfos n t
  | .julian0 n => julian0CheckInfos n t
  | .mwd _ _ _ => ⟨0, 0, 0, 0⟩

def IsJul : RuleDay → Prop
  | .julian1 _ => True
  | .julian0 _ => True
  | .mwd _ _ _ => False

theorem doy_julian (J : RuleDay) (hJ : IsJul J) (y : Int) : doy J y = jdoy J (Spec.isLeap y) := by
  cases J with
  | julian1 n => unfold doy jdoy Spec.ruleDayNumber; simp only []; omega
  | julian0 n => unfold doy jdoy Spec.ruleDayNumber; simp only []; omega
  | mwd _ _ _ => exact absurd hJ (by simp [IsJul])

theorem jdoy_shape (J : RuleDay) : jdoy J false ≤ jdoy J true ∧ jdoy J true ≤ jdoy J false + 1 := by
  cases J with
  | julian1 n => unfold jdoy; simp only [Bool.false_and, Bool.true_and, Bool.false_eq_true, if_false]; split <;> omega
  | julian0 n => simp only [jdoy]; omega
  | mwd _ _ _ => simp only [jdoy]; omega

theorem jinfos_eq (J : RuleDay) (hJ : IsJul J) (t : Int) :
    jinfos J t =
      { startNormal := jdoy J false * 86400 + t, endNormal := jdoy J false * 86400 + t - 31536000,
        startLeap := jdoy J true * 86400 + t, endLeap := jdoy J true * 86400 + t - 31622400 } := by
  have c1 : SECONDS_PER_DAY = 86400 := by decide
  have c2 : SECONDS_PER_NORMAL_YEAR = 31536000 := by decide
  have c3 : SECONDS_PER_LEAP_YEAR = 31622400 := by decide
  cases J with
  | julian1 n =>
    unfold jinfos julian1CheckInfos jdoy
    simp only [c1, c2, c3, Bool.false_and, Bool.true_and, Bool.false_eq_true, if_false, decide_eq_true_eq,
      JulianDayCheckInfos.mk.injEq]
    by_cases h : n ≤ 59
    · have h' : ¬ n ≥ 60 := by omega
      simp only [h, h', if_true, if_false]; omega
    · have h' : n ≥ 60 := by omega
      simp only [h, h', if_true, if_false]; omega
  | julian0 n =>
    unfold jinfos julian0CheckInfos jdoy
    simp only [c1, c2, c3]
  | mwd _ _ _ => exact absurd hJ (by simp [IsJul])

end TzVerif.Proofs.CM
