/-
The translated source (Generated/Src.lean, regenerated from /repo/src on every run by tools/rs2lean.py)
equals the hand-written model: src/timezone/mod.rs — the two leap-second conversions (C12), the forward
lookup (C03), the constructor's checks (C13) — and the zone-taking constructors of src/datetime/mod.rs.

`LocalTimeType::equal` is not translated (byte loop over the designation buffer): the translation gives it the
meaning "structural equality", as the model does; the harness exercises the real function (C13 family).
-/
import TzVerif.SrcBase
import TzVerif.Model.TimeZone
import TzVerif.Proofs.SrcEqCal
import TzVerif.Proofs.SrcEqRule
import TzVerif.Proofs.SrcEqZoneLoops

namespace TzVerif.Proofs.SrcEq
open TzVerif TzVerif.Model TzVerif.Gen

/-- leap corrections are `i32` values (the only place where the unbounded model and the typed source could differ:
    `saturating_abs` of a value outside the type's range) -/
def CorrectionsI32 (ls : List LeapSecond) : Prop := ∀ l ∈ ls, I32 l.correction

theorem binary_search_transitions_eq (l : List Transition) (x : Int) :
    bsOfExcept (Src.binary_search_transitions l x) = binarySearch (l.map (·.unixLeapTime)) x := by
  exact (binary_search_transitions_agree l x).bsOfExcept

theorem binary_search_leap_seconds_eq (l : List LeapSecond) (x : Int) :
    bsOfExcept (Src.binary_search_leap_seconds l x) = binarySearch (l.map (·.unixLeapTime)) x := by
  exact (binary_search_leap_seconds_agree l x).bsOfExcept

/-- the forward leap conversion, loop with `break` and early `return` included -/
theorem unix_time_to_unix_leap_time_eq (z : TimeZone) (u : Int) :
    Src.TimeZoneRef.unix_time_to_unix_leap_time z u = unixTimeToUnixLeapTime z.leapSeconds u := by
  have h : Src.TimeZoneRef.unix_time_to_unix_leap_time z u
      = leapOut (Src.loopR (Int.toNat ((z.leapSeconds.length : Int) + 1)) _ (u, (0 : Int))) := rfl
  rw [h]
  unfold unixTimeToUnixLeapTime
  refine leap_loop u z.leapSeconds _ (fun e i => ?_) z.leapSeconds.length 0 u
    (Int.toNat ((z.leapSeconds.length : Int) + 1)) (by omega) (by omega) (by omega)
  · dsimp only
    rw [checked_i64_eq]
    by_cases h0 : i < (z.leapSeconds.length : Int)
    · by_cases h1 : e < (Src.idx z.leapSeconds i).unixLeapTime
      · simp only [h0, h1, decide_true, if_true]
      · by_cases h2 : i64Min ≤ u + (Src.idx z.leapSeconds i).correction ∧ u + (Src.idx z.leapSeconds i).correction ≤ i64Max
        · simp only [h0, h1, h2, and_self, decide_true, decide_false, if_true, if_false, Bool.false_eq_true]
        · simp only [h0, h1, h2, decide_true, decide_false, if_true, if_false, Bool.false_eq_true]
    · simp only [h0, decide_false, if_false, Bool.false_eq_true]

theorem unix_leap_time_to_unix_time_eq (z : TimeZone) (u : Int) :
    Src.TimeZoneRef.unix_leap_time_to_unix_time z u = unixLeapTimeToUnixTime z.leapSeconds u := by
  unfold Src.TimeZoneRef.unix_leap_time_to_unix_time unixLeapTimeToUnixTime
  by_cases h0 : u = i64Min
  · rw [if_pos h0, if_pos (by simp only [decide_eq_true_eq]; exact h0)]
  · rw [if_neg h0, if_neg (by simp only [decide_eq_true_eq]; exact h0)]
    have hA := binary_search_leap_seconds_agree z.leapSeconds (u - 1)
    generalize Src.binary_search_leap_seconds z.leapSeconds (u - 1) = r at hA ⊢
    generalize binarySearch (List.map (fun x => x.unixLeapTime) z.leapSeconds) (u - 1) = m at hA ⊢
    rcases hA with ⟨k, rfl, rfl⟩ | ⟨k, rfl, rfl⟩ <;> dsimp only [BS.upper]
    · rw [idx_pred_ite z.leapSeconds ((k : Int) + 1) (k + 1) rfl (·.correction) 0, checked_i64_eq]
      generalize (if k + 1 > 0 then (z.leapSeconds.getD (k + 1 - 1) default).correction else 0) = c
      by_cases h : i64Min ≤ u - c ∧ u - c ≤ i64Max
      · rw [if_pos h, if_pos h]
      · rw [if_neg h, if_neg h]
    · rw [idx_pred_ite z.leapSeconds _ k rfl (·.correction) 0, checked_i64_eq]
      generalize (if k > 0 then (z.leapSeconds.getD (k - 1) default).correction else 0) = c
      by_cases h : i64Min ≤ u - c ∧ u - c ≤ i64Max
      · rw [if_pos h, if_pos h]
      · rw [if_neg h, if_neg h]

theorem find_local_time_type_eq (z : TimeZone) (u : Int) :
    Src.TimeZoneRef.find_local_time_type z u = z.findLocalTimeType u := by
  unfold Src.TimeZoneRef.find_local_time_type TimeZone.findLocalTimeType
  rw [unix_time_to_unix_leap_time_eq]
  cases z.transitions.getLast? with
  | none =>
    cases z.extraRule with
    | none => rfl
    | some rule => exact transition_rule_find_local_time_type_eq rule u
  | some last =>
    dsimp only
    cases unixTimeToUnixLeapTime z.leapSeconds u with
    | error e => rfl
    | ok ult =>
      dsimp only
      by_cases h : ult ≥ last.unixLeapTime
      · simp only [h, decide_true, if_true]
        cases z.extraRule with
        | none => rfl
        | some rule => exact transition_rule_find_local_time_type_eq rule u
      · simp only [h, decide_false, if_false, Bool.false_eq_true]
        have hA := binary_search_transitions_agree z.transitions ult
        generalize Src.binary_search_transitions z.transitions ult = r at hA ⊢
        generalize binarySearch (List.map (fun x => x.unixLeapTime) z.transitions) ult = m at hA ⊢
        rcases hA with ⟨k, rfl, rfl⟩ | ⟨k, rfl, rfl⟩ <;> dsimp only [BS.upper]
        · rw [idx_pred_ite z.transitions ((k : Int) + 1) (k + 1) rfl (fun t => (t.localTimeTypeIndex : Int)) 0, idx_ite_nat]; rfl
        · rw [idx_pred_ite z.transitions (k : Int) k rfl (fun t => (t.localTimeTypeIndex : Int)) 0, idx_ite_nat]; rfl

theorem check_inputs_eq (z : TimeZone) (hc : CorrectionsI32 z.leapSeconds) :
    Src.TimeZoneRef.check_inputs z = z.checkInputs := by
  unfold Src.TimeZoneRef.check_inputs TimeZone.checkInputs
  dsimp only
  by_cases h0 : z.localTimeTypes.length = 0
  · have h0' : (z.localTimeTypes.length : Int) = 0 := by omega
    rw [if_pos h0, if_pos (by simp only [decide_eq_true_eq]; exact h0')]
  · have h0' : ¬ (z.localTimeTypes.length : Int) = 0 := by omega
    rw [if_neg h0, if_neg (by simp only [decide_eq_true_eq]; exact h0')]
    generalize hr1 : Src.loopR (Int.toNat ((z.transitions.length : Int) + 1)) _ _ = r1
    have e1 : r1 = loopOfCheck z.transitions.length (checkTransitions z.localTimeTypes.length z.transitions) :=
      hr1.symm.trans (transitions_loop z.transitions z.localTimeTypes.length _ (fun i => rfl) z.transitions.length 0
        (Int.toNat ((z.transitions.length : Int) + 1)) (by omega) (by omega) (by omega))
    subst e1
    rcases checkTransitions z.localTimeTypes.length z.transitions with e | ⟨⟨⟩⟩
    · rfl
    · dsimp only [loopOfCheck]
      refine ite_bnot_congr _ _ _ _ _ ?_ ?_
      · rcases hL : z.leapSeconds with _ | ⟨l, t⟩
        · rfl
        · have hl : I32 l.correction := hc l (by rw [hL]; exact List.mem_cons_self)
          have e0 : Src.idx (l :: t) 0 = l := rfl
          rw [e0, sat_i32_natAbs _ hl]
          rfl
      · generalize hr2 : Src.loopR (Int.toNat ((z.leapSeconds.length : Int) + 1)) _ _ = r2
        have e2 : r2 = loopOfCheck z.leapSeconds.length (checkLeapPairs z.leapSeconds) :=
          hr2.symm.trans (leap_pairs_loop z.leapSeconds _ (fun i => by
            rw [sat_i64_sub, sat_i32_sub, sat_i32_natAbs _ (satSubI32_range _ _)]
            exact pairs_body_eq _ _ _ i _) z.leapSeconds.length 0
            (Int.toNat ((z.leapSeconds.length : Int) + 1)) (by omega) (by omega) (by omega))
        subst e2
        rcases checkLeapPairs z.leapSeconds with e | ⟨⟨⟩⟩
        · rfl
        · dsimp only [loopOfCheck]
          clear hr1 hr2
          cases z.extraRule with
          | none => cases z.transitions.getLast? <;> rfl
          | some rule =>
            cases z.transitions.getLast? with
            | none => rfl
            | some last =>
              dsimp only
              rw [unix_leap_time_to_unix_time_eq]
              cases unixLeapTimeToUnixTime z.leapSeconds last.unixLeapTime with
              | error e => rfl
              | ok ut =>
                dsimp only
                rw [transition_rule_find_local_time_type_eq]
                cases rule.findLocalTimeType ut with
                | error e => rfl
                | ok rt =>
                  dsimp only
                  rw [idx_nat, ltt_beq_eq]
                  cases (z.localTimeTypes.getD last.localTimeTypeIndex default).equal rt <;> rfl

theorem zone_new_eq (ts : List Transition) (tys : List LocalTimeType) (ls : List LeapSecond) (r : Option TransitionRule)
    (hc : CorrectionsI32 ls) : Src.TimeZoneRef.new ts tys ls r = TimeZone.new ts tys ls r := by
  unfold Src.TimeZoneRef.new TimeZone.new Src.TimeZoneRef.new_unchecked
  dsimp only
  rw [check_inputs_eq _ hc]
  cases TimeZone.checkInputs { transitions := ts, localTimeTypes := tys, leapSeconds := ls, extraRule := r } <;> rfl

theorem dt_from_timespec_eq (u ns : Int) (z : TimeZone) : Src.DateTime.from_timespec u ns z = DateTime.fromTimespec u ns z := by
  unfold Src.DateTime.from_timespec DateTime.fromTimespec
  rw [find_local_time_type_eq]
  cases z.findLocalTimeType u with
  | error e => rfl
  | ok l => exact dt_from_timespec_and_local_eq u ns l

theorem dt_from_total_nanoseconds_and_local_eq (t : Int) (l : LocalTimeType) :
    Src.DateTime.from_total_nanoseconds_and_local t l = DateTime.fromTotalNanosecondsAndLocal t l := by
  unfold Src.DateTime.from_total_nanoseconds_and_local DateTime.fromTotalNanosecondsAndLocal
  rw [total_nanoseconds_to_timespec_eq]
  cases totalNanosecondsToTimespec t with
  | error e => rfl
  | ok p => obtain ⟨s, n⟩ := p; exact dt_from_timespec_and_local_eq s n l

theorem dt_from_total_nanoseconds_eq (t : Int) (z : TimeZone) : Src.DateTime.from_total_nanoseconds t z = DateTime.fromTotalNanoseconds t z := by
  unfold Src.DateTime.from_total_nanoseconds DateTime.fromTotalNanoseconds
  rw [total_nanoseconds_to_timespec_eq]
  cases totalNanosecondsToTimespec t with
  | error e => rfl
  | ok p => obtain ⟨s, n⟩ := p; exact dt_from_timespec_eq s n z

theorem dt_project_eq (d : DateTime) (z : TimeZone) : Src.DateTime.project d z = d.project z := by
  unfold Src.DateTime.project DateTime.project
  exact dt_from_timespec_eq _ _ z

theorem utc_project_eq (c : UtcDateTime) (z : TimeZone) : Src.UtcDateTime.project c z = c.project z := by
  unfold Src.UtcDateTime.project UtcDateTime.project
  rw [utc_unix_time_eq]
  exact dt_from_timespec_eq _ _ z

end TzVerif.Proofs.SrcEq
