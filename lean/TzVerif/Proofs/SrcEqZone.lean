/-
The translated source (Generated/Src.lean, regenerated from /repo/src on every run by tools/rs2lean.py)
equals the hand-written model: src/timezone/mod.rs — the two leap-second conversions (C12), the forward
lookup (C03), the constructor's checks (C13) — and the zone-taking constructors of src/datetime/mod.rs.

`LocalTimeType::equal` is not translated (byte loop over the designation buffer): the translation gives it the
meaning "structural equality", as the model does; the harness exercises the real function (C13 family).
-/
import TzVerif.Generated.Src
import TzVerif.Model.TimeZone
import TzVerif.Proofs.SrcEqCal
import TzVerif.Proofs.SrcEqRule

namespace TzVerif.Proofs.SrcEq
open TzVerif TzVerif.Model TzVerif.Gen

/-- leap corrections are `i32` values (the only place where the unbounded model and the typed source could differ:
    `saturating_abs` of a value outside the type's range) -/
def CorrectionsI32 (ls : List LeapSecond) : Prop := ∀ l ∈ ls, I32 l.correction

theorem binary_search_transitions_eq (l : List Transition) (x : Int) :
    bsOfExcept (Src.binary_search_transitions l x) = binarySearch (l.map (·.unixLeapTime)) x := by
  sorry

theorem binary_search_leap_seconds_eq (l : List LeapSecond) (x : Int) :
    bsOfExcept (Src.binary_search_leap_seconds l x) = binarySearch (l.map (·.unixLeapTime)) x := by
  sorry

/-- the forward leap conversion, loop with `break` and early `return` included -/
theorem unix_time_to_unix_leap_time_eq (z : TimeZone) (u : Int) :
    Src.TimeZoneRef.unix_time_to_unix_leap_time z u = unixTimeToUnixLeapTime z.leapSeconds u := by
  sorry

theorem unix_leap_time_to_unix_time_eq (z : TimeZone) (u : Int) :
    Src.TimeZoneRef.unix_leap_time_to_unix_time z u = unixLeapTimeToUnixTime z.leapSeconds u := by
  sorry

theorem find_local_time_type_eq (z : TimeZone) (u : Int) :
    Src.TimeZoneRef.find_local_time_type z u = z.findLocalTimeType u := by
  sorry

theorem check_inputs_eq (z : TimeZone) (hc : CorrectionsI32 z.leapSeconds) :
    Src.TimeZoneRef.check_inputs z = z.checkInputs := by
  sorry

theorem zone_new_eq (ts : List Transition) (tys : List LocalTimeType) (ls : List LeapSecond) (r : Option TransitionRule)
    (hc : CorrectionsI32 ls) : Src.TimeZoneRef.new ts tys ls r = TimeZone.new ts tys ls r := by
  sorry

theorem dt_from_timespec_eq (u ns : Int) (z : TimeZone) : Src.DateTime.from_timespec u ns z = DateTime.fromTimespec u ns z := by
  sorry

theorem dt_from_total_nanoseconds_and_local_eq (t : Int) (l : LocalTimeType) :
    Src.DateTime.from_total_nanoseconds_and_local t l = DateTime.fromTotalNanosecondsAndLocal t l := by
  sorry

theorem dt_from_total_nanoseconds_eq (t : Int) (z : TimeZone) : Src.DateTime.from_total_nanoseconds t z = DateTime.fromTotalNanoseconds t z := by
  sorry

theorem dt_project_eq (d : DateTime) (z : TimeZone) : Src.DateTime.project d z = d.project z := by
  sorry

theorem utc_project_eq (c : UtcDateTime) (z : TimeZone) : Src.UtcDateTime.project c z = c.project z := by
  sorry

end TzVerif.Proofs.SrcEq
