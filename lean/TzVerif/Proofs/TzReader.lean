/-
C09 part 1: the reference reader accepts exactly the sentences of the grammar (pure Spec). INTERFACE.
-/
import TzVerif.Spec.TzGrammar

namespace TzVerif.Proofs
open TzVerif.Model

/-- the executable reference reader and the declarative grammar define the same relation
    (in particular the grammar is unambiguous: a byte string has at most one syntax tree) -/
theorem readTz_iff_sentence (ext : Bool) (b : Bytes) (t : Spec.TzAst) :
    Spec.readTz ext b = some t ↔ Spec.Sentence ext b t := by
  sorry

end TzVerif.Proofs
