/-
C09 part 1: the reference reader accepts exactly the sentences of the grammar (pure Spec). INTERFACE.
-/
import TzVerif.Spec.TzGrammar

namespace TzVerif.Proofs
open TzVerif.Model

set_option linter.unusedSimpArgs false

namespace TzReader
open TzVerif.Spec

/-! ### List helpers -/

/-- `r` does not begin with a byte of class `p` -/
def NoHead (p : Nat → Bool) (r : Bytes) : Prop := ∀ c r', r = c :: r' → p c = false

@[simp] theorem noHead_nil (p : Nat → Bool) : NoHead p [] := by
  intro c r' h; cases h

@[simp] theorem noHead_cons (p : Nat → Bool) (c : Nat) (r : Bytes) : NoHead p (c :: r) ↔ p c = false := by
  constructor
  · intro h; exact h c r rfl
  · intro h c' r' e; cases e; exact h

theorem takeWhile_append_stop (p : Nat → Bool) (a r : Bytes) (ha : ∀ c ∈ a, p c = true)
    (hr : NoHead p r) : (a ++ r).takeWhile p = a ∧ (a ++ r).dropWhile p = r := by
  induction a with
  | nil =>
    cases r with
    | nil => simp
    | cons c r' => have := (noHead_cons p c r').1 hr; simp [this]
  | cons x a ih =>
    have hx := ha x (by simp)
    have := ih (fun c hc => ha c (by simp [hc]))
    simp [hx, this]

theorem span_facts (p : Nat → Bool) (s : Bytes) :
    s = s.takeWhile p ++ s.dropWhile p ∧ (∀ c ∈ s.takeWhile p, p c = true) ∧ NoHead p (s.dropWhile p) := by
  refine ⟨(List.takeWhile_append_dropWhile).symm, ?_⟩
  induction s with
  | nil => simp
  | cons x s ih =>
    by_cases hx : p x = true
    · simpa [hx] using ih
    · simp [hx]

/-! ### One-step behaviour of the primitive readers -/

@[simp] theorem run_failure {α} (s : Bytes) : (failure : R α).run s = none := rfl

theorem rByte_run_cons (c : Nat) (s : Bytes) : (rByte c).run (c :: s) = some ((), s) := by
  simp [rByte, StateT.run_bind, StateT.run_get]

theorem rByte_sound {c : Nat} {s r : Bytes} {u : Unit} (h : (rByte c).run s = some (u, r)) : s = c :: r := by
  cases s with
  | nil => simp [rByte, StateT.run_bind, StateT.run_get] at h
  | cons b rest =>
    by_cases hb : b = c
    · subst hb; rw [rByte_run_cons] at h; simp at h; rw [h]
    · simp [rByte, StateT.run_bind, StateT.run_get, hb] at h

theorem rNum_run (s : Bytes) :
    rNum.run s = if s.takeWhile isAsciiDigit = [] then none
      else some (digitsValue (s.takeWhile isAsciiDigit), s.dropWhile isAsciiDigit) := by
  simp only [rNum, StateT.run_bind, StateT.run_get]
  by_cases h : s.takeWhile isAsciiDigit = []
  · simp [h]
  · simp [h]

theorem rNum_complete {bh : Bytes} {v : Nat} {r : Bytes} (h : IsNum bh v) (hr : NoHead isAsciiDigit r) :
    rNum.run (bh ++ r) = some (v, r) := by
  obtain ⟨hne, hd, hv⟩ := h
  obtain ⟨h1, h2⟩ := takeWhile_append_stop _ bh r hd hr
  rw [rNum_run, h1, h2, if_neg hne, hv]

theorem rNum_sound {s : Bytes} {v : Nat} {r : Bytes} (h : rNum.run s = some (v, r)) :
    ∃ bh, s = bh ++ r ∧ IsNum bh v ∧ NoHead isAsciiDigit r := by
  rw [rNum_run] at h
  by_cases he : s.takeWhile isAsciiDigit = []
  · simp [he] at h
  · rw [if_neg he] at h
    simp only [Option.some.injEq, Prod.mk.injEq] at h
    obtain ⟨hv, hr⟩ := h
    obtain ⟨f1, f2, f3⟩ := span_facts isAsciiDigit s
    rw [hr] at f1 f3
    exact ⟨_, f1, ⟨he, f2, hv⟩, f3⟩

theorem rHms_sound {s : Bytes} {x : Hms} {r : Bytes} (h : rHms.run s = some (x, r)) :
    ∃ b, s = b ++ r ∧ IsHms b x ∧ NoHead isAsciiDigit r := by
  simp only [rHms, StateT.run_bind, StateT.run_get, Option.bind_eq_bind, Option.pure_def,
    Option.bind_some] at h
  rw [Option.bind_eq_some_iff] at h
  obtain ⟨⟨hh, s1⟩, h1, h⟩ := h
  obtain ⟨bh, rfl, nh, d1⟩ := rNum_sound h1
  simp only at h
  split at h
  · rename_i s2
    simp only [StateT.run_bind, rByte_run_cons, Option.bind_eq_bind, Option.bind_some,
      StateT.run_get, Option.pure_def] at h
    rw [Option.bind_eq_some_iff] at h
    obtain ⟨⟨mm, s3⟩, h2, h⟩ := h
    obtain ⟨bm, rfl, nm, d2⟩ := rNum_sound h2
    simp only at h
    split at h
    · rename_i s4
      simp only [StateT.run_bind, rByte_run_cons, Option.bind_eq_bind, Option.bind_some,
        StateT.run_get, Option.pure_def] at h
      rw [Option.bind_eq_some_iff] at h
      obtain ⟨⟨ss, s5⟩, h3, h⟩ := h
      obtain ⟨bs, rfl, ns, d3⟩ := rNum_sound h3
      simp only [StateT.run_pure, Option.pure_def, Option.some.injEq, Prod.mk.injEq] at h
      obtain ⟨rfl, rfl⟩ := h
      exact ⟨bh ++ [58] ++ bm ++ [58] ++ bs, by simp, Or.inr (Or.inr ⟨bh, bm, bs, rfl, nh, nm, ns⟩), d3⟩
    · simp only [StateT.run_pure, Option.pure_def, Option.some.injEq, Prod.mk.injEq] at h
      obtain ⟨rfl, rfl⟩ := h
      exact ⟨bh ++ [58] ++ bm, by simp, Or.inr (Or.inl ⟨bh, bm, rfl, nh, nm, rfl⟩), d2⟩
  · simp only [StateT.run_pure, Option.pure_def, Option.some.injEq, Prod.mk.injEq] at h
    obtain ⟨rfl, rfl⟩ := h
    exact ⟨bh, rfl, Or.inl ⟨bh, rfl, nh, rfl, rfl⟩, d1⟩

theorem noDigit_58 (r : Bytes) : NoHead isAsciiDigit (58 :: r) := by simp [isAsciiDigit]

theorem rHms_complete {b : Bytes} {x : Hms} {r : Bytes} (h : IsHms b x)
    (hd : NoHead isAsciiDigit r) (hc : NoHead (· == 58) r) : rHms.run (b ++ r) = some (x, r) := by
  obtain ⟨xh, xm, xs⟩ := x
  rcases h with ⟨bh, rfl, nh, hm, hs⟩ | ⟨bh, bm, rfl, nh, nm, hs⟩ | ⟨bh, bm, bs, rfl, nh, nm, ns⟩
  · simp only at nh hm hs
    subst hm hs
    simp only [rHms, StateT.run_bind, StateT.run_get, Option.bind_eq_bind, Option.pure_def,
      Option.bind_some, rNum_complete nh hd]
    split
    · simp at hc
    · rfl
  · simp only at nh nm hs
    subst hs
    have e : bh ++ [58] ++ bm ++ r = bh ++ (58 :: (bm ++ r)) := by simp
    simp only [e, rHms, StateT.run_bind, StateT.run_get, Option.bind_eq_bind, Option.pure_def,
      Option.bind_some, rNum_complete nh (noDigit_58 _), rByte_run_cons, rNum_complete nm hd]
    split
    · simp at hc
    · rfl
  · simp only at nh nm ns
    have e : bh ++ [58] ++ bm ++ [58] ++ bs ++ r = bh ++ (58 :: (bm ++ (58 :: (bs ++ r)))) := by simp
    simp only [e, rHms, StateT.run_bind, StateT.run_get, Option.bind_eq_bind, Option.pure_def,
      Option.bind_some, rNum_complete nh (noDigit_58 _), rByte_run_cons,
      rNum_complete nm (noDigit_58 _), rNum_complete ns hd]
    rfl

theorem isNum_head {b : Bytes} {v : Nat} (h : IsNum b v) :
    ∃ c b', b = c :: b' ∧ isAsciiDigit c = true := by
  obtain ⟨hne, hd, _⟩ := h
  cases b with
  | nil => exact absurd rfl hne
  | cons c b' => exact ⟨c, b', rfl, hd c (by simp)⟩

theorem isHms_head {b : Bytes} {x : Hms} (h : IsHms b x) :
    ∃ c b', b = c :: b' ∧ isAsciiDigit c = true := by
  rcases h with ⟨bh, rfl, nh, _⟩ | ⟨bh, bm, rfl, nh, _⟩ | ⟨bh, bm, bs, rfl, nh, _⟩ <;>
  · obtain ⟨c, b', rfl, hc⟩ := isNum_head nh
    exact ⟨c, _, by simp; rfl, hc⟩

theorem isSigned_head {b : Bytes} {x : Signed} (h : IsSigned b x) :
    ∃ c b', b = c :: b' ∧ (c = 43 ∨ c = 45 ∨ isAsciiDigit c = true) := by
  rcases h with ⟨_, hh⟩ | ⟨r, _, rfl, _⟩ | ⟨r, _, rfl, _⟩
  · obtain ⟨c, b', rfl, hc⟩ := isHms_head hh
    exact ⟨c, b', rfl, Or.inr (Or.inr hc)⟩
  · exact ⟨43, r, rfl, Or.inl rfl⟩
  · exact ⟨45, r, rfl, Or.inr (Or.inl rfl)⟩

theorem rSigned_sound {s : Bytes} {x : Signed} {r : Bytes} (h : rSigned.run s = some (x, r)) :
    ∃ b, s = b ++ r ∧ IsSigned b x ∧ NoHead isAsciiDigit r := by
  simp only [rSigned, StateT.run_bind, StateT.run_get, Option.bind_eq_bind, Option.pure_def,
    Option.bind_some] at h
  split at h
  · rename_i s1
    simp only [StateT.run_bind, rByte_run_cons, Option.bind_eq_bind, Option.bind_some] at h
    rw [Option.bind_eq_some_iff] at h
    obtain ⟨⟨y, s2⟩, h1, h⟩ := h
    obtain ⟨b, rfl, hb, d⟩ := rHms_sound h1
    simp only [StateT.run_pure, Option.pure_def, Option.some.injEq, Prod.mk.injEq] at h
    obtain ⟨rfl, rfl⟩ := h
    exact ⟨43 :: b, rfl, Or.inr (Or.inl ⟨b, rfl, rfl, hb⟩), d⟩
  · rename_i s1
    simp only [StateT.run_bind, rByte_run_cons, Option.bind_eq_bind, Option.bind_some] at h
    rw [Option.bind_eq_some_iff] at h
    obtain ⟨⟨y, s2⟩, h1, h⟩ := h
    obtain ⟨b, rfl, hb, d⟩ := rHms_sound h1
    simp only [StateT.run_pure, Option.pure_def, Option.some.injEq, Prod.mk.injEq] at h
    obtain ⟨rfl, rfl⟩ := h
    exact ⟨45 :: b, rfl, Or.inr (Or.inr ⟨b, rfl, rfl, hb⟩), d⟩
  · simp only [StateT.run_bind, Option.bind_eq_bind] at h
    rw [Option.bind_eq_some_iff] at h
    obtain ⟨⟨y, s2⟩, h1, h⟩ := h
    obtain ⟨b, rfl, hb, d⟩ := rHms_sound h1
    simp only [StateT.run_pure, Option.pure_def, Option.some.injEq, Prod.mk.injEq] at h
    obtain ⟨rfl, rfl⟩ := h
    exact ⟨b, rfl, Or.inl ⟨rfl, hb⟩, d⟩

theorem rSigned_complete {b : Bytes} {x : Signed} {r : Bytes} (h : IsSigned b x)
    (hd : NoHead isAsciiDigit r) (hc : NoHead (· == 58) r) : rSigned.run (b ++ r) = some (x, r) := by
  obtain ⟨sg, y⟩ := x
  rcases h with ⟨hs, hh⟩ | ⟨b', hs, rfl, hh⟩ | ⟨b', hs, rfl, hh⟩
  · simp only at hs hh
    subst hs
    obtain ⟨c, b', rfl, hcd⟩ := isHms_head hh
    simp only [rSigned, StateT.run_bind, StateT.run_get, Option.bind_eq_bind, Option.pure_def,
      Option.bind_some, List.cons_append]
    split
    · rename_i heq
      simp only [List.cons.injEq] at heq
      obtain ⟨rfl, _⟩ := heq
      simp [isAsciiDigit] at hcd
    · rename_i heq
      simp only [List.cons.injEq] at heq
      obtain ⟨rfl, _⟩ := heq
      simp [isAsciiDigit] at hcd
    · rw [← List.cons_append]
      simp only [StateT.run_bind, rHms_complete hh hd hc, Option.bind_eq_bind, Option.bind_some]
      rfl
  · simp only at hs hh
    subst hs
    simp only [rSigned, StateT.run_bind, StateT.run_get, Option.bind_eq_bind, Option.pure_def,
      Option.bind_some, List.cons_append, rByte_run_cons, rHms_complete hh hd hc]
    rfl
  · simp only at hs hh
    subst hs
    simp only [rSigned, StateT.run_bind, StateT.run_get, Option.bind_eq_bind, Option.pure_def,
      Option.bind_some, List.cons_append, rByte_run_cons, rHms_complete hh hd hc]
    rfl

theorem rName_sound {s : Bytes} {n : Bytes} {r : Bytes} (h : rName.run s = some (n, r)) :
    ∃ b, s = b ++ r ∧ IsName b n := by
  simp only [rName, StateT.run_bind, StateT.run_get, Option.bind_eq_bind, Option.pure_def,
    Option.bind_some] at h
  split at h
  · rename_i rest
    split at h
    · rename_i rest' heq
      simp at h
      obtain ⟨rfl, rfl⟩ := h
      obtain ⟨f1, f2, _⟩ := span_facts (fun x => x != 62) rest
      rw [heq] at f1
      refine ⟨[60] ++ List.takeWhile (fun x => x != 62) rest ++ [62], ?_, Or.inr ⟨rfl, ?_⟩⟩
      · simp; exact f1
      · intro c hc; simpa using f2 c hc
    · simp at h
  · by_cases he : (List.takeWhile isAsciiAlphabetic s).isEmpty = true
    · simp [he] at h
    · simp [he] at h
      obtain ⟨rfl, rfl⟩ := h
      obtain ⟨f1, f2, _⟩ := span_facts isAsciiAlphabetic s
      exact ⟨_, f1, Or.inl ⟨rfl, by simpa using he, f2⟩⟩

theorem rName_complete {b : Bytes} {n : Bytes} {r : Bytes} (h : IsName b n)
    (ha : NoHead isAsciiAlphabetic r) : rName.run (b ++ r) = some (n, r) := by
  rcases h with ⟨rfl, hne, hal⟩ | ⟨rfl, hq⟩
  · obtain ⟨h1, h2⟩ := takeWhile_append_stop _ b r hal ha
    simp only [rName, StateT.run_bind, StateT.run_get, Option.bind_eq_bind, Option.pure_def,
      Option.bind_some]
    split
    · rename_i rest heq
      cases b with
      | nil => exact absurd rfl hne
      | cons c b' =>
        simp only [List.cons_append, List.cons.injEq] at heq
        have := hal c (by simp)
        rw [heq.1] at this
        simp [isAsciiAlphabetic] at this
    · simp [h1, h2, hne]
  · have hq' : ∀ c ∈ n, (fun x => x != 62) c = true := by
      intro c hc; simpa using hq c hc
    have hr : NoHead (fun x => x != 62) (62 :: r) := by simp
    obtain ⟨h1, h2⟩ := takeWhile_append_stop _ n (62 :: r) hq' hr
    have e : [60] ++ n ++ [62] ++ r = 60 :: (n ++ 62 :: r) := by simp
    simp only [e, rName, StateT.run_bind, StateT.run_get, Option.bind_eq_bind, Option.pure_def,
      Option.bind_some, h1, h2]
    simp

theorem noDigit_46 (r : Bytes) : NoHead isAsciiDigit (46 :: r) := by simp [isAsciiDigit]

theorem rDay_sound {s : Bytes} {d : DayAst} {r : Bytes} (h : rDay.run s = some (d, r)) :
    ∃ b, s = b ++ r ∧ IsDay b d := by
  simp only [rDay, StateT.run_bind, StateT.run_get, Option.bind_eq_bind, Option.pure_def,
    Option.bind_some] at h
  split at h
  · rename_i s1
    simp only [StateT.run_bind, rByte_run_cons, Option.bind_eq_bind, Option.bind_some] at h
    rw [Option.bind_eq_some_iff] at h
    obtain ⟨⟨n, s2⟩, h1, h⟩ := h
    obtain ⟨bn, rfl, hn, _⟩ := rNum_sound h1
    simp only [StateT.run_pure, Option.pure_def, Option.some.injEq, Prod.mk.injEq] at h
    obtain ⟨rfl, rfl⟩ := h
    exact ⟨74 :: bn, rfl, bn, rfl, hn⟩
  · rename_i s1
    simp only [StateT.run_bind, rByte_run_cons, Option.bind_eq_bind, Option.bind_some] at h
    rw [Option.bind_eq_some_iff] at h
    obtain ⟨⟨n1, s2⟩, h1, h⟩ := h
    obtain ⟨b1, rfl, hn1, _⟩ := rNum_sound h1
    simp only at h
    rw [Option.bind_eq_some_iff] at h
    obtain ⟨⟨u, s3⟩, h2, h⟩ := h
    have := rByte_sound h2
    subst this
    simp only at h
    rw [Option.bind_eq_some_iff] at h
    obtain ⟨⟨n2, s4⟩, h3, h⟩ := h
    obtain ⟨b2, rfl, hn2, _⟩ := rNum_sound h3
    simp only at h
    rw [Option.bind_eq_some_iff] at h
    obtain ⟨⟨u', s5⟩, h4, h⟩ := h
    have := rByte_sound h4
    subst this
    simp only at h
    rw [Option.bind_eq_some_iff] at h
    obtain ⟨⟨n3, s6⟩, h5, h⟩ := h
    obtain ⟨b3, rfl, hn3, _⟩ := rNum_sound h5
    simp only [StateT.run_pure, Option.pure_def, Option.some.injEq, Prod.mk.injEq] at h
    obtain ⟨rfl, rfl⟩ := h
    exact ⟨[77] ++ b1 ++ [46] ++ b2 ++ [46] ++ b3, by simp, b1, b2, b3, rfl, hn1, hn2, hn3⟩
  · simp only [StateT.run_bind, Option.bind_eq_bind] at h
    rw [Option.bind_eq_some_iff] at h
    obtain ⟨⟨n, s2⟩, h1, h⟩ := h
    obtain ⟨bn, rfl, hn, _⟩ := rNum_sound h1
    simp only [StateT.run_pure, Option.pure_def, Option.some.injEq, Prod.mk.injEq] at h
    obtain ⟨rfl, rfl⟩ := h
    exact ⟨bn, rfl, hn⟩

theorem rDay_complete {b : Bytes} {d : DayAst} {r : Bytes} (h : IsDay b d)
    (hd : NoHead isAsciiDigit r) : rDay.run (b ++ r) = some (d, r) := by
  cases d with
  | j n =>
    obtain ⟨bn, rfl, hn⟩ := h
    simp only [rDay, StateT.run_bind, StateT.run_get, Option.bind_eq_bind, Option.pure_def,
      Option.bind_some, List.cons_append, rByte_run_cons, rNum_complete hn hd]
    rfl
  | m mo w wd =>
    obtain ⟨b1, b2, b3, rfl, h1, h2, h3⟩ := h
    have e : [77] ++ b1 ++ [46] ++ b2 ++ [46] ++ b3 ++ r = 77 :: (b1 ++ 46 :: (b2 ++ 46 :: (b3 ++ r))) := by
      simp
    simp only [e, rDay, StateT.run_bind, StateT.run_get, Option.bind_eq_bind, Option.pure_def,
      Option.bind_some, rByte_run_cons, rNum_complete h1 (noDigit_46 _),
      rNum_complete h2 (noDigit_46 _), rNum_complete h3 hd]
    rfl
  | z n =>
    have hn : IsNum b n := h
    obtain ⟨c, b', rfl, hcd⟩ := isNum_head hn
    simp only [rDay, StateT.run_bind, StateT.run_get, Option.bind_eq_bind, Option.pure_def,
      Option.bind_some, List.cons_append]
    split
    · rename_i heq
      simp only [List.cons.injEq] at heq
      obtain ⟨rfl, _⟩ := heq
      simp [isAsciiDigit] at hcd
    · rename_i heq
      simp only [List.cons.injEq] at heq
      obtain ⟨rfl, _⟩ := heq
      simp [isAsciiDigit] at hcd
    · rw [← List.cons_append]
      simp only [StateT.run_bind, rNum_complete hn hd, Option.bind_eq_bind, Option.bind_some]
      rfl

theorem noDigit_47 (r : Bytes) : NoHead isAsciiDigit (47 :: r) := by simp [isAsciiDigit]

theorem rRule_sound {s : Bytes} {x : RuleAst} {r : Bytes} (h : rRule.run s = some (x, r)) :
    ∃ b, s = b ++ r ∧ IsRule true b x := by
  simp only [rRule, StateT.run_bind, StateT.run_get, Option.bind_eq_bind, Option.pure_def,
    Option.bind_some] at h
  rw [Option.bind_eq_some_iff] at h
  obtain ⟨⟨d, s1⟩, h1, h⟩ := h
  obtain ⟨bd, rfl, hd⟩ := rDay_sound h1
  simp only at h
  split at h
  · rename_i s2
    simp only [StateT.run_bind, rByte_run_cons, Option.bind_eq_bind, Option.bind_some] at h
    rw [Option.bind_eq_some_iff] at h
    obtain ⟨⟨t, s3⟩, h2, h⟩ := h
    obtain ⟨bt, rfl, ht, _⟩ := rSigned_sound h2
    simp only [StateT.run_pure, Option.pure_def, Option.some.injEq, Prod.mk.injEq] at h
    obtain ⟨rfl, rfl⟩ := h
    exact ⟨bd ++ [47] ++ bt, by simp, Or.inr ⟨bd, bt, t, rfl, rfl, hd, ht, by simp⟩⟩
  · simp only [StateT.run_pure, Option.pure_def, Option.some.injEq, Prod.mk.injEq] at h
    obtain ⟨rfl, rfl⟩ := h
    exact ⟨bd, rfl, Or.inl ⟨rfl, hd⟩⟩

theorem rRule_complete {ext : Bool} {b : Bytes} {x : RuleAst} {r : Bytes} (h : IsRule ext b x)
    (hd : NoHead isAsciiDigit r) (hc : NoHead (· == 58) r) (hs : NoHead (· == 47) r) :
    rRule.run (b ++ r) = some (x, r) := by
  obtain ⟨d, tm⟩ := x
  rcases h with ⟨ht, hday⟩ | ⟨bd, bt, t, ht, rfl, hday, htm, _⟩
  · simp only at ht hday
    subst ht
    simp only [rRule, StateT.run_bind, StateT.run_get, Option.bind_eq_bind, Option.pure_def,
      Option.bind_some, rDay_complete hday hd]
    split
    · simp at hs
    · rfl
  · simp only at ht hday
    subst ht
    have e : bd ++ [47] ++ bt ++ r = bd ++ 47 :: (bt ++ r) := by simp
    simp only [e, rRule, StateT.run_bind, StateT.run_get, Option.bind_eq_bind, Option.pure_def,
      Option.bind_some, rDay_complete hday (noDigit_47 _), rByte_run_cons,
      rSigned_complete htm hd hc]
    rfl

/-- the sequencing part of `readTz` -/
def pTz : R TzAst := do
  let name ← rName
  let offset ← rSigned
  match (← get) with
  | [] => pure { name, offset, dst := none }
  | _ =>
    let dn ← rName
    let doff ← (match (← get) with
      | 44 :: _ => pure none
      | _ => do let o ← rSigned; pure (some o))
    rByte 44
    let r1 ← rRule
    rByte 44
    let r2 ← rRule
    pure { name, offset, dst := some { name := dn, offset := doff, start := r1, stop := r2 } }

/-- the sign filter of `readTz` -/
def signOk (ext : Bool) (r : RuleAst) : Bool :=
  ext || (match r.time with | some x => x.sign.isNone | none => true)

theorem readTz_eq (ext : Bool) (b : Bytes) :
    readTz ext b = match pTz.run b with
      | some (t, []) =>
        (match t.dst with
        | some d => if signOk ext d.start && signOk ext d.stop then some t else none
        | none => some t)
      | _ => none := rfl

theorem pTz_sound {s : Bytes} {t : TzAst} {r : Bytes} (h : pTz.run s = some (t, r)) :
    ∃ b, s = b ++ r ∧ Sentence true b t := by
  simp only [pTz, StateT.run_bind, StateT.run_get, Option.bind_eq_bind, Option.pure_def,
    Option.bind_some] at h
  rw [Option.bind_eq_some_iff] at h
  obtain ⟨⟨n, s1⟩, h1, h⟩ := h
  obtain ⟨bn, rfl, hn⟩ := rName_sound h1
  simp only at h
  rw [Option.bind_eq_some_iff] at h
  obtain ⟨⟨o, s2⟩, h2, h⟩ := h
  obtain ⟨bo, rfl, ho, _⟩ := rSigned_sound h2
  simp only at h
  split at h
  · simp only [StateT.run_pure, Option.pure_def, Option.some.injEq, Prod.mk.injEq] at h
    obtain ⟨rfl, rfl⟩ := h
    exact ⟨bn ++ bo, by simp, bn, bo, hn, ho, Or.inl ⟨rfl, rfl⟩⟩
  · simp only [StateT.run_bind, Option.bind_eq_bind] at h
    rw [Option.bind_eq_some_iff] at h
    obtain ⟨⟨dn, s3⟩, h3, h⟩ := h
    obtain ⟨bdn, rfl, hdn⟩ := rName_sound h3
    simp only [StateT.run_get, Option.pure_def, Option.bind_some] at h
    rw [Option.bind_eq_some_iff] at h
    obtain ⟨⟨doff, s4⟩, h4, h⟩ := h
    simp only at h
    rw [Option.bind_eq_some_iff] at h
    obtain ⟨⟨u1, s5⟩, h5, h⟩ := h
    have := rByte_sound h5
    subst this
    simp only at h
    rw [Option.bind_eq_some_iff] at h
    obtain ⟨⟨r1, s6⟩, h6, h⟩ := h
    obtain ⟨b1, rfl, hr1⟩ := rRule_sound h6
    simp only at h
    rw [Option.bind_eq_some_iff] at h
    obtain ⟨⟨u2, s7⟩, h7, h⟩ := h
    have := rByte_sound h7
    subst this
    simp only at h
    rw [Option.bind_eq_some_iff] at h
    obtain ⟨⟨r2, s8⟩, h8, h⟩ := h
    obtain ⟨b2, rfl, hr2⟩ := rRule_sound h8
    simp only [StateT.run_pure, Option.pure_def, Option.some.injEq, Prod.mk.injEq] at h
    obtain ⟨rfl, rfl⟩ := h
    have key : ∃ bdo, s3 = bdo ++ 44 :: (b1 ++ 44 :: (b2 ++ s8)) ∧
        ((doff = none ∧ bdo = []) ∨ (∃ o, doff = some o ∧ IsSigned bdo o)) := by
      split at h4
      · simp only [StateT.run_pure, Option.pure_def, Option.some.injEq, Prod.mk.injEq] at h4
        obtain ⟨rfl, h4⟩ := h4
        exact ⟨[], h4, Or.inl ⟨rfl, rfl⟩⟩
      · simp only [StateT.run_bind, Option.bind_eq_bind] at h4
        rw [Option.bind_eq_some_iff] at h4
        obtain ⟨⟨o', s9⟩, h9, h4⟩ := h4
        obtain ⟨bdo, rfl, hdo, _⟩ := rSigned_sound h9
        simp only [StateT.run_pure, Option.pure_def, Option.some.injEq, Prod.mk.injEq] at h4
        obtain ⟨rfl, rfl⟩ := h4
        exact ⟨bdo, rfl, Or.inr ⟨o', rfl, hdo⟩⟩
    obtain ⟨bdo, rfl, hdo⟩ := key
    refine ⟨bn ++ bo ++ bdn ++ bdo ++ [44] ++ b1 ++ [44] ++ b2, by simp, bn, bo, hn, ho, Or.inr ?_⟩
    exact ⟨_, bdn, bdo, b1, b2, rfl, rfl, hdn, hdo, hr1, hr2⟩

theorem signedHead_noAlpha {c : Nat} (h : c = 43 ∨ c = 45 ∨ isAsciiDigit c = true) :
    isAsciiAlphabetic c = false ∧ c ≠ 44 := by
  rcases h with rfl | rfl | h
  · decide
  · decide
  · simp [isAsciiDigit] at h
    constructor
    · simp [isAsciiAlphabetic]; omega
    · omega

theorem isSigned_noAlpha {b : Bytes} {x : Signed} (h : IsSigned b x) (r : Bytes) :
    NoHead isAsciiAlphabetic (b ++ r) := by
  obtain ⟨c, b', rfl, hc⟩ := isSigned_head h
  simp [(signedHead_noAlpha hc).1]

theorem isName_head {b n : Bytes} (h : IsName b n) :
    ∃ c b', b = c :: b' ∧ isAsciiDigit c = false ∧ c ≠ 58 := by
  rcases h with ⟨rfl, hne, hal⟩ | ⟨rfl, _⟩
  · cases b with
    | nil => exact absurd rfl hne
    | cons c b' =>
      have := hal c (by simp)
      refine ⟨c, b', rfl, ?_, ?_⟩
      · simp [isAsciiAlphabetic] at this; simp [isAsciiDigit]; omega
      · rintro rfl; simp [isAsciiAlphabetic] at this
  · exact ⟨60, _, by simp; rfl, by decide, by decide⟩

theorem pTz_complete {ext : Bool} {b : Bytes} {t : TzAst} (h : Sentence ext b t) :
    pTz.run b = some (t, []) := by
  obtain ⟨n, o, dst⟩ := t
  obtain ⟨bn, bo, hn, ho, h⟩ := h
  simp only at hn ho h
  rcases h with ⟨rfl, rfl⟩ | ⟨d, bdn, bdo, b1, b2, rfl, rfl, hdn, hdo, hr1, hr2⟩
  · have e : bn ++ bo = bn ++ (bo ++ []) := by simp
    simp only [e, pTz, StateT.run_bind, StateT.run_get, Option.bind_eq_bind, Option.pure_def,
      Option.bind_some, rName_complete hn (isSigned_noAlpha ho _),
      rSigned_complete ho (noHead_nil _) (noHead_nil _)]
    rfl
  · obtain ⟨dn, doff, r1, r2⟩ := d
    simp only at hdn hdo hr1 hr2
    obtain ⟨c, bdn', rfl, hc1, hc2⟩ := isName_head hdn
    have e : bn ++ bo ++ (c :: bdn') ++ bdo ++ [44] ++ b1 ++ [44] ++ b2 =
        bn ++ (bo ++ ((c :: bdn') ++ (bdo ++ 44 :: (b1 ++ 44 :: (b2 ++ []))))) := by simp
    have hd2 : NoHead isAsciiDigit ((c :: bdn') ++ (bdo ++ 44 :: (b1 ++ 44 :: (b2 ++ [])))) := by
      simp [hc1]
    have hc2' : NoHead (· == 58) ((c :: bdn') ++ (bdo ++ 44 :: (b1 ++ 44 :: (b2 ++ [])))) := by
      simp [hc2]
    have ha3 : NoHead isAsciiAlphabetic (bdo ++ 44 :: (b1 ++ 44 :: (b2 ++ []))) := by
      rcases hdo with ⟨_, rfl⟩ | ⟨o', _, ho'⟩
      · simp [isAsciiAlphabetic]
      · exact isSigned_noAlpha ho' _
    simp only [e, pTz, StateT.run_bind, StateT.run_get, Option.bind_eq_bind, Option.pure_def,
      Option.bind_some, rName_complete hn (isSigned_noAlpha ho _),
      rSigned_complete ho hd2 hc2', rName_complete hdn ha3]
    split
    · rename_i heq; simp at heq
    · rcases hdo with ⟨rfl, rfl⟩ | ⟨o', rfl, ho'⟩
      · simp only [List.nil_append] at ha3
        simp only [StateT.run_bind, StateT.run_get, Option.bind_eq_bind, Option.pure_def,
          Option.bind_some, List.nil_append, rName_complete hdn ha3, StateT.run_pure,
          rByte_run_cons,
          rRule_complete hr1 (r := 44 :: (b2 ++ [])) (by simp [isAsciiDigit]) (by simp) (by simp),
          rRule_complete hr2 (noHead_nil _) (noHead_nil _) (noHead_nil _)]
      · obtain ⟨c', bdo', rfl, hc'⟩ := isSigned_head ho'
        have h44 := (signedHead_noAlpha hc').2
        simp only [StateT.run_bind, StateT.run_get, Option.bind_eq_bind, Option.pure_def,
          Option.bind_some, rName_complete hdn ha3]
        split
        · rename_i heq
          simp only [List.cons_append, List.cons.injEq] at heq
          exact absurd heq.1 h44
        · simp only [StateT.run_bind, StateT.run_get, Option.bind_eq_bind, Option.pure_def,
            Option.bind_some, StateT.run_pure, rByte_run_cons,
            rSigned_complete ho' (r := 44 :: (b1 ++ 44 :: (b2 ++ []))) (by simp [isAsciiDigit]) (by simp),
            rRule_complete hr1 (r := 44 :: (b2 ++ [])) (by simp [isAsciiDigit]) (by simp) (by simp),
            rRule_complete hr2 (noHead_nil _) (noHead_nil _) (noHead_nil _)]

theorem isRule_ext (ext : Bool) (b : Bytes) (x : RuleAst) :
    IsRule ext b x ↔ IsRule true b x ∧ signOk ext x = true := by
  obtain ⟨d, tm⟩ := x
  constructor
  · rintro (⟨ht, hd⟩ | ⟨bd, bt, t, ht, rfl, hd, hs, he⟩)
    · simp only at ht; subst ht
      exact ⟨Or.inl ⟨rfl, hd⟩, by simp [signOk]⟩
    · simp only at ht; subst ht
      refine ⟨Or.inr ⟨bd, bt, t, rfl, rfl, hd, hs, by simp⟩, ?_⟩
      cases ext with
      | true => simp [signOk]
      | false => simp [signOk, he rfl]
  · rintro ⟨⟨ht, hd⟩ | ⟨bd, bt, t, ht, rfl, hd, hs, _⟩, hk⟩
    · exact Or.inl ⟨ht, hd⟩
    · simp only at ht; subst ht
      refine Or.inr ⟨bd, bt, t, rfl, rfl, hd, hs, ?_⟩
      rintro rfl
      simpa [signOk] using hk

theorem sentence_ext (ext : Bool) (b : Bytes) (t : TzAst) :
    Sentence ext b t ↔
      Sentence true b t ∧ ∀ d, t.dst = some d → signOk ext d.start = true ∧ signOk ext d.stop = true := by
  constructor
  · rintro ⟨bn, bo, hn, ho, ⟨hdst, rfl⟩ | ⟨d, bdn, bdo, b1, b2, hdst, rfl, hdn, hdo, hr1, hr2⟩⟩
    · exact ⟨⟨bn, bo, hn, ho, Or.inl ⟨hdst, rfl⟩⟩, by simp [hdst]⟩
    · rw [isRule_ext] at hr1 hr2
      refine ⟨⟨bn, bo, hn, ho, Or.inr ⟨d, bdn, bdo, b1, b2, hdst, rfl, hdn, hdo, hr1.1, hr2.1⟩⟩, ?_⟩
      intro d' hd'
      rw [hdst] at hd'
      cases hd'
      exact ⟨hr1.2, hr2.2⟩
  · rintro ⟨⟨bn, bo, hn, ho, ⟨hdst, rfl⟩ | ⟨d, bdn, bdo, b1, b2, hdst, rfl, hdn, hdo, hr1, hr2⟩⟩, hk⟩
    · exact ⟨bn, bo, hn, ho, Or.inl ⟨hdst, rfl⟩⟩
    · obtain ⟨k1, k2⟩ := hk d hdst
      exact ⟨bn, bo, hn, ho, Or.inr ⟨d, bdn, bdo, b1, b2, hdst, rfl, hdn, hdo,
        (isRule_ext ext b1 d.start).2 ⟨hr1, k1⟩, (isRule_ext ext b2 d.stop).2 ⟨hr2, k2⟩⟩⟩

end TzReader
open TzReader

/-- the executable reference reader and the declarative grammar define the same relation
    (in particular the grammar is unambiguous: a byte string has at most one syntax tree) -/
theorem readTz_iff_sentence (ext : Bool) (b : Bytes) (t : Spec.TzAst) :
    Spec.readTz ext b = some t ↔ Spec.Sentence ext b t := by
  rw [readTz_eq, sentence_ext]
  constructor
  · intro h
    split at h
    · rename_i t' hrun
      obtain ⟨b', hb, hs⟩ := pTz_sound hrun
      simp only [List.append_nil] at hb
      subst hb
      split at h
      · rename_i d hd
        split at h
        · rename_i hk
          cases h
          simp only [Bool.and_eq_true] at hk
          refine ⟨hs, ?_⟩
          intro d' hd'
          rw [hd] at hd'
          cases hd'
          exact hk
        · cases h
      · rename_i hd
        cases h
        exact ⟨hs, by simp [hd]⟩
    · cases h
  · rintro ⟨hs, hk⟩
    rw [pTz_complete hs]
    simp only
    split
    · rename_i d hd
      obtain ⟨k1, k2⟩ := hk d hd
      simp [k1, k2]
    · rfl

end TzVerif.Proofs
