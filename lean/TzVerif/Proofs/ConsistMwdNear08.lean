/-
C11 step 5: table of near pairs, start month 8 (kernel evaluation; 15 chunks of 245 pairs).
-/
import TzVerif.Proofs.ConsistMwdPair

namespace TzVerif.Proofs.CM

set_option maxRecDepth 100000

theorem near_8_0_1 : ∀ d1 ∈ r7, ∀ w2 ∈ r5, ∀ d2 ∈ r7, nearOK 8 1 d1 8 w2 d2 = true := by decide +kernel
theorem near_8_0_2 : ∀ d1 ∈ r7, ∀ w2 ∈ r5, ∀ d2 ∈ r7, nearOK 8 2 d1 8 w2 d2 = true := by decide +kernel
theorem near_8_0_3 : ∀ d1 ∈ r7, ∀ w2 ∈ r5, ∀ d2 ∈ r7, nearOK 8 3 d1 8 w2 d2 = true := by decide +kernel
theorem near_8_0_4 : ∀ d1 ∈ r7, ∀ w2 ∈ r5, ∀ d2 ∈ r7, nearOK 8 4 d1 8 w2 d2 = true := by decide +kernel
theorem near_8_0_5 : ∀ d1 ∈ r7, ∀ w2 ∈ r5, ∀ d2 ∈ r7, nearOK 8 5 d1 8 w2 d2 = true := by decide +kernel
theorem near_8_1_1 : ∀ d1 ∈ r7, ∀ w2 ∈ r5, ∀ d2 ∈ r7, nearOK 8 1 d1 9 w2 d2 = true := by decide +kernel
theorem near_8_1_2 : ∀ d1 ∈ r7, ∀ w2 ∈ r5, ∀ d2 ∈ r7, nearOK 8 2 d1 9 w2 d2 = true := by decide +kernel
theorem near_8_1_3 : ∀ d1 ∈ r7, ∀ w2 ∈ r5, ∀ d2 ∈ r7, nearOK 8 3 d1 9 w2 d2 = true := by decide +kernel
theorem near_8_1_4 : ∀ d1 ∈ r7, ∀ w2 ∈ r5, ∀ d2 ∈ r7, nearOK 8 4 d1 9 w2 d2 = true := by decide +kernel
theorem near_8_1_5 : ∀ d1 ∈ r7, ∀ w2 ∈ r5, ∀ d2 ∈ r7, nearOK 8 5 d1 9 w2 d2 = true := by decide +kernel
theorem near_8_2_1 : ∀ d1 ∈ r7, ∀ w2 ∈ r5, ∀ d2 ∈ r7, nearOK 8 1 d1 7 w2 d2 = true := by decide +kernel
theorem near_8_2_2 : ∀ d1 ∈ r7, ∀ w2 ∈ r5, ∀ d2 ∈ r7, nearOK 8 2 d1 7 w2 d2 = true := by decide +kernel
theorem near_8_2_3 : ∀ d1 ∈ r7, ∀ w2 ∈ r5, ∀ d2 ∈ r7, nearOK 8 3 d1 7 w2 d2 = true := by decide +kernel
theorem near_8_2_4 : ∀ d1 ∈ r7, ∀ w2 ∈ r5, ∀ d2 ∈ r7, nearOK 8 4 d1 7 w2 d2 = true := by decide +kernel
theorem near_8_2_5 : ∀ d1 ∈ r7, ∀ w2 ∈ r5, ∀ d2 ∈ r7, nearOK 8 5 d1 7 w2 d2 = true := by decide +kernel

theorem near_8 : ∀ m2 ∈ nearMonths 8, ∀ w1 ∈ r5, ∀ d1 ∈ r7, ∀ w2 ∈ r5, ∀ d2 ∈ r7,
    nearOK 8 w1 d1 m2 w2 d2 = true := by
  intro m2 h2 w1 h1
  have e : nearMonths 8 = [8, 9, 7] := by decide
  rw [e] at h2
  simp only [r5, List.mem_cons, List.not_mem_nil, or_false] at h1 h2
  rcases h2 with h | h | h <;> subst h <;> rcases h1 with h | h | h | h | h <;> subst h
  · exact near_8_0_1
  · exact near_8_0_2
  · exact near_8_0_3
  · exact near_8_0_4
  · exact near_8_0_5
  · exact near_8_1_1
  · exact near_8_1_2
  · exact near_8_1_3
  · exact near_8_1_4
  · exact near_8_1_5
  · exact near_8_2_1
  · exact near_8_2_2
  · exact near_8_2_3
  · exact near_8_2_4
  · exact near_8_2_5

end TzVerif.Proofs.CM
