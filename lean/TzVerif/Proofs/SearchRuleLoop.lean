/-
Helper lemmas for C05 / C06 on zones with a DST rule: the rule loop of the local-time search, step by
step (`rloop_char`), and the effect of `dropUntil` on a sorted list of breakpoints (`dropUntil_ev`).
Used by Proofs/SearchRule.lean.
-/
import TzVerif.Model.Find
import TzVerif.Proofs.Search

namespace TzVerif.Proofs
open TzVerif.Model TzVerif.Gen

/-- what one step of the rule loop decides to push: a valid candidate, or the gap of its breakpoint -/
inductive REv where
  | normal (lt : LocalTimeType) (u : Int)
  | gap (T : Int) (bf af : LocalTimeType)

/-- the decision of the step at breakpoint `t`, the previous breakpoint being `q` -/
def StepEv (t : Int) (st : RuleStep) (q : Int) : REv → Prop
  | .normal lt u => (q ≤ st.utBefore ∧ st.utBefore < t) ∧ lt = st.before ∧ u = st.utBefore
  | .gap T bf af => ¬(q ≤ st.utBefore ∧ st.utBefore < t) ∧ (st.utBefore ≥ t ∧ st.utAfter < t) ∧
      T = t ∧ bf = st.before ∧ af = st.after

/-- the entry that realises a decision -/
def Realises (mk : LocalTimeType → Int → DateTime) (ns : Int) : REv → Found → Prop
  | .normal lt u, f => f = .normal (mk lt u)
  | .gap T bf af, f => ∃ b a, DateTime.fromTimespecAndLocal T ns bf = .ok b ∧
      DateTime.fromTimespecAndLocal T ns af = .ok a ∧ f = .skipped b a

/-- decisions taken along a list of (breakpoint, step), the first interval starting at `q` -/
def EvQ : List (Int × RuleStep) → Int → REv → Prop
  | [], _, _ => False
  | (t, st) :: rest, _q, e => StepEv t st _q e ∨ EvQ rest t e

theorem StepEv.unique {t : Int} {st : RuleStep} {q : Int} {e e' : REv} (h : StepEv t st q e) (h' : StepEv t st q e') :
    e = e' := by
  cases e with
  | normal lt u =>
    cases e' with
    | normal lt' u' =>
      obtain ⟨-, rfl, rfl⟩ := h
      obtain ⟨-, rfl, rfl⟩ := h'
      rfl
    | gap T bf af => exact absurd h.1 h'.1
  | gap T bf af =>
    cases e' with
    | normal lt' u' => exact absurd h'.1 h.1
    | gap T' bf' af' =>
      obtain ⟨-, -, rfl, rfl, rfl⟩ := h
      obtain ⟨-, -, rfl, rfl, rfl⟩ := h'
      rfl

theorem rloop_step (mk : LocalTimeType → Int → DateTime) (ns : Int) (t : Int) (st : RuleStep)
    (rest : List (Int × RuleStep)) (q : Int) (acc out : List Found)
    (h : findRuleLoop mk ns ((t, st) :: rest) q acc = .ok out) :
    ∃ l0, findRuleLoop mk ns rest t (acc ++ l0) = .ok out ∧
      ((l0 = [] ∧ ∀ e, ¬ StepEv t st q e) ∨
       (∃ e f, l0 = [f] ∧ StepEv t st q e ∧ Realises mk ns e f)) := by
  unfold findRuleLoop at h
  split at h
  · rename_i hn
    exact ⟨_, h, Or.inr ⟨.normal st.before st.utBefore, _, rfl, ⟨hn, rfl, rfl⟩, rfl⟩⟩
  · rename_i hn
    split at h
    · rename_i hg
      split at h
      · cases h
      · rename_i b hb
        split at h
        · cases h
        · rename_i a ha
          exact ⟨_, h, Or.inr ⟨.gap t st.before st.after, _, rfl, ⟨hn, hg, rfl, rfl, rfl⟩, b, a, hb, ha, rfl⟩⟩
    · rename_i hg
      refine ⟨[], by rw [List.append_nil]; exact h, Or.inl ⟨rfl, ?_⟩⟩
      intro e he
      cases e with
      | normal lt u => exact hn he.1
      | gap T bf af => exact hg he.2.1

/-- instant of a decision -/
def REv.instant : REv → Int
  | .normal _ u => u
  | .gap T _ _ => T

theorem Realises.instant {mk : LocalTimeType → Int → DateTime} {ns : Int} (hmk : ∀ l u, (mk l u).unixTime = u)
    {e : REv} {f : Found} (h : Realises mk ns e f) : instantOfFound f = e.instant := by
  cases e with
  | normal lt u =>
    have : f = .normal (mk lt u) := h
    subst this
    exact hmk lt u
  | gap T bf af =>
    obtain ⟨b, a, hb, -, rfl⟩ := h
    exact (fromTimespecAndLocal_spec _ _ _ _ hb).1

/-- the whole rule loop: the output is the accumulator followed by the realisations of the decisions,
    and these come in order when the breakpoints do -/
theorem rloop_char (mk : LocalTimeType → Int → DateTime) (ns : Int) (hmk : ∀ l u, (mk l u).unixTime = u) :
    ∀ (l : List (Int × RuleStep)) (q : Int) (acc out : List Found),
    findRuleLoop mk ns l q acc = .ok out →
    ∃ outR, out = acc ++ outR ∧
      (∀ f ∈ outR, ∃ e, EvQ l q e ∧ Realises mk ns e f) ∧
      (∀ e, EvQ l q e → ∃ f ∈ outR, Realises mk ns e f) ∧
      (List.Pairwise (fun x y => x.1 ≤ y.1) l → (∀ x ∈ l, q ≤ x.1) →
        List.Pairwise Before outR ∧ ∀ f ∈ outR, q ≤ instantOfFound f) := by
  intro l
  induction l with
  | nil =>
    intro q acc out h
    unfold findRuleLoop at h
    injection h with h
    refine ⟨[], by simp [h], ?_, ?_, ?_⟩
    · intro f hf; cases hf
    · intro e he; exact he.elim
    · intro _ _; exact ⟨List.Pairwise.nil, fun f hf => by cases hf⟩
  | cons x rest ih =>
    intro q acc out h
    obtain ⟨t, st⟩ := x
    obtain ⟨l0, hrec, hl0⟩ := rloop_step mk ns t st rest q acc out h
    obtain ⟨outR, hout, hs, hc, ho⟩ := ih t _ _ hrec
    refine ⟨l0 ++ outR, by rw [hout, List.append_assoc], ?_, ?_, ?_⟩
    · intro f hf
      rcases List.mem_append.mp hf with hf | hf
      · rcases hl0 with ⟨rfl, -⟩ | ⟨e, f', rfl, he, hr⟩
        · cases hf
        · rw [List.mem_singleton] at hf
          subst hf
          exact ⟨e, Or.inl he, hr⟩
      · obtain ⟨e, he, hr⟩ := hs f hf
        exact ⟨e, Or.inr he, hr⟩
    · intro e he
      rcases he with he | he
      · rcases hl0 with ⟨-, hno⟩ | ⟨e', f', rfl, he', hr⟩
        · exact absurd he (hno e)
        · have := StepEv.unique he he'
          subst this
          exact ⟨f', List.mem_append_left _ (List.mem_singleton.mpr rfl), hr⟩
      · obtain ⟨f, hf, hr⟩ := hc e he
        exact ⟨f, List.mem_append_right _ hf, hr⟩
    · intro hp hq
      rw [List.pairwise_cons] at hp
      have hqt : q ≤ t := hq (t, st) (List.mem_cons_self ..)
      obtain ⟨hoP, hoB⟩ := ho hp.2 (fun x hx => hp.1 x hx)
      rcases hl0 with ⟨rfl, -⟩ | ⟨e, f', rfl, he, hr⟩
      · refine ⟨by simpa using hoP, ?_⟩
        intro f hf
        have := hoB f (by simpa using hf)
        omega
      · have hi := hr.instant hmk
        have hb : q ≤ instantOfFound f' ∧ instantOfFound f' ≤ t ∧ (∀ x, f' = .normal x → instantOfFound f' < t) := by
          cases e with
          | normal lt u =>
            obtain ⟨⟨h1, h2⟩, -, rfl⟩ := he
            simp only [REv.instant] at hi
            exact ⟨by omega, by omega, fun _ _ => by omega⟩
          | gap T bf af =>
            obtain ⟨-, -, rfl, -, -⟩ := he
            obtain ⟨b, a, -, -, rfl⟩ := hr
            simp only [REv.instant] at hi
            exact ⟨by omega, by omega, fun x hx => by cases hx⟩
        constructor
        · rw [List.singleton_append, List.pairwise_cons]
          refine ⟨?_, hoP⟩
          intro g hg
          have := hoB g hg
          exact ⟨by omega, fun x hx => by have := hb.2.2 x hx; omega⟩
        · intro f hf
          rw [List.singleton_append, List.mem_cons] at hf
          rcases hf with rfl | hf
          · exact hb.1
          · have := hoB f hf
            omega

/-! ### `dropUntil` on a sorted list -/

/-- decisions along the *whole* list when the loop is started after `dropUntil prev`: the steps whose
    breakpoint is `≤ prev` are skipped and the first remaining interval starts at `prev` -/
def EvD (prev : Int) : List (Int × RuleStep) → Int → REv → Prop
  | [], _, _ => False
  | (t, st) :: rest, p, e => (prev < t ∧ StepEv t st (max prev p) e) ∨ EvD prev rest t e

theorem StepEv.congr_q {t : Int} {st : RuleStep} {q q' : Int} (h : q = q') (e : REv) :
    StepEv t st q e ↔ StepEv t st q' e := by rw [h]

theorem nodrop_ev (prev : Int) (e : REv) : ∀ (l : List (Int × RuleStep)) (q : Int), prev < q →
    List.Pairwise (fun x y => x.1 ≤ y.1) l → (∀ x ∈ l, q ≤ x.1) → (EvQ l q e ↔ EvD prev l q e) := by
  intro l
  induction l with
  | nil => intro q _ _ _; exact Iff.rfl
  | cons x rest ih =>
    intro q hq hp hall
    obtain ⟨t, st⟩ := x
    rw [List.pairwise_cons] at hp
    have hqt : q ≤ t := hall (t, st) (List.mem_cons_self ..)
    have ih' := ih t (by omega) hp.2 (fun x hx => hp.1 x hx)
    have hm : max prev q = q := by omega
    show (StepEv t st q e ∨ EvQ rest t e) ↔ ((prev < t ∧ StepEv t st (max prev q) e) ∨ EvD prev rest t e)
    rw [hm, ih']
    constructor
    · rintro (h | h)
      · exact Or.inl ⟨by omega, h⟩
      · exact Or.inr h
    · rintro (h | h)
      · exact Or.inl h.2
      · exact Or.inr h

theorem dropUntil_ev (prev : Int) (e : REv) : ∀ (l : List (Int × RuleStep)) (p : Int), p ≤ prev →
    List.Pairwise (fun x y => x.1 ≤ y.1) l → (EvQ (dropUntil prev l) prev e ↔ EvD prev l p e) := by
  intro l
  induction l with
  | nil => intro p _ _; exact Iff.rfl
  | cons x rest ih =>
    intro p hp hs
    obtain ⟨t, st⟩ := x
    rw [List.pairwise_cons] at hs
    unfold dropUntil
    split
    · rename_i hlt
      have hm : max prev p = prev := by omega
      have := nodrop_ev prev e rest t hlt hs.2 (fun x hx => hs.1 x hx)
      show (StepEv t st prev e ∨ EvQ rest t e) ↔ ((prev < t ∧ StepEv t st (max prev p) e) ∨ EvD prev rest t e)
      rw [hm, this]
      constructor
      · rintro (h | h)
        · exact Or.inl ⟨hlt, h⟩
        · exact Or.inr h
      · rintro (h | h)
        · exact Or.inl h.2
        · exact Or.inr h
    · rename_i hlt
      rw [ih t (by omega) hs.2]
      show EvD prev rest t e ↔ ((prev < t ∧ StepEv t st (max prev p) e) ∨ EvD prev rest t e)
      constructor
      · intro h; exact Or.inr h
      · rintro (h | h)
        · exact absurd h.1 hlt
        · exact h

theorem dropUntil_sorted (prev : Int) : ∀ (l : List (Int × RuleStep)),
    List.Pairwise (fun x y => x.1 ≤ y.1) l →
    List.Pairwise (fun x y => x.1 ≤ y.1) (dropUntil prev l) ∧ ∀ x ∈ dropUntil prev l, prev ≤ x.1 := by
  intro l
  induction l with
  | nil => intro _; exact ⟨List.Pairwise.nil, fun x hx => by cases hx⟩
  | cons x rest ih =>
    intro hs
    obtain ⟨t, st⟩ := x
    unfold dropUntil
    split
    · rename_i hlt
      refine ⟨hs, ?_⟩
      rw [List.pairwise_cons] at hs
      intro x hx
      rcases List.mem_cons.mp hx with rfl | hx
      · exact Int.le_of_lt hlt
      · have := hs.1 x hx
        simp only at this
        omega
    · rw [List.pairwise_cons] at hs
      exact ih hs.2

end TzVerif.Proofs
