/-
Helper lemmas for C04: the three day notations (`Jn`, `n`, `Mm.w.d`) computed by the code denote the
day number given by the spec, in every year.
-/
import TzVerif.Model.Rule
import TzVerif.Spec.Rule
import TzVerif.Proofs.Calendar

namespace TzVerif.Proofs
open TzVerif.Model TzVerif.Gen

/-! ### Julian notations: finite tables -/

theorem julian1_table : ∀ x : Nat, x < 365 →
    1 ≤ (julian1TransitionDate ((x : Int) + 1)).1 ∧ (julian1TransitionDate ((x : Int) + 1)).1 ≤ 12 ∧
    cumN (julian1TransitionDate ((x : Int) + 1)).1 + (julian1TransitionDate ((x : Int) + 1)).2 = (x : Int) + 1 ∧
    (3 ≤ (julian1TransitionDate ((x : Int) + 1)).1 ↔ 59 ≤ x) := by
  decide +kernel

theorem julian0_table : ∀ b : Bool, ∀ x : Nat, x < 366 →
    1 ≤ (julian0TransitionDate (x : Int) b).1 ∧ (julian0TransitionDate (x : Int) b).1 ≤ 12 ∧
    cumN (julian0TransitionDate (x : Int) b).1 +
      (if 3 ≤ (julian0TransitionDate (x : Int) b).1 ∧ b = true then 1 else 0) +
      ((julian0TransitionDate (x : Int) b).2 - 1) = (x : Int) := by
  decide +kernel

theorem dayNumber_expand (y m d : Int) :
    Spec.dayNumber y m d =
      Spec.daysBeforeYear y + cumN m + (if 3 ≤ m ∧ Spec.isLeap y = true then 1 else 0) + (d - 1) := by
  unfold Spec.dayNumber
  rw [daysBeforeMonth_eq]
  omega

theorem julian1_unixTime (n y t : Int) (h1 : 1 ≤ n) (h2 : n ≤ 365) :
    (RuleDay.julian1 n).unixTime y t = 86400 * Spec.ruleDayNumber (.julian1 n) y + t := by
  have hn : n = ((n - 1).toNat : Int) + 1 := by omega
  obtain ⟨a1, a2, a3, a4⟩ := julian1_table (n - 1).toNat (by omega)
  rw [← hn] at a1 a2 a3 a4
  show daysSinceUnixEpoch y (julian1TransitionDate n).1 (julian1TransitionDate n).2 * SECONDS_PER_DAY + t = _
  rw [daysSinceUnixEpoch_eq _ _ _ ⟨a1, a2⟩, dayNumber_expand, c_spd]
  show _ = 86400 * (Spec.daysBeforeYear y + (n - 1) + (if (Spec.isLeap y && decide (n ≥ 60)) = true then 1 else 0)) + t
  simp only [Bool.and_eq_true, decide_eq_true_eq]
  generalize (julian1TransitionDate n).1 = m at *
  generalize (julian1TransitionDate n).2 = d at *
  generalize cumN m = c at *
  cases hl : Spec.isLeap y
  · simp only [Bool.false_eq_true, and_false, false_and, if_false]
    omega
  · simp only [and_true, true_and]
    by_cases h60 : n ≥ 60
    · rw [if_pos (by omega), if_pos h60]; omega
    · rw [if_neg (by omega), if_neg h60]; omega

theorem julian0_unixTime (n y t : Int) (h1 : 0 ≤ n) (h2 : n ≤ 365) :
    (RuleDay.julian0 n).unixTime y t = 86400 * Spec.ruleDayNumber (.julian0 n) y + t := by
  have hn : n = (n.toNat : Int) := by omega
  obtain ⟨a1, a2, a3⟩ := julian0_table (isLeapYear y) n.toNat (by omega)
  rw [← hn] at a1 a2 a3
  show daysSinceUnixEpoch y (julian0TransitionDate n (isLeapYear y)).1 (julian0TransitionDate n (isLeapYear y)).2
      * SECONDS_PER_DAY + t = _
  rw [daysSinceUnixEpoch_eq _ _ _ ⟨a1, a2⟩, dayNumber_expand, c_spd]
  show _ = 86400 * (Spec.daysBeforeYear y + n) + t
  rw [isLeapYear_eq] at *
  generalize (julian0TransitionDate n (Spec.isLeap y)).1 = m at *
  generalize (julian0TransitionDate n (Spec.isLeap y)).2 = d at *
  generalize cumN m = c at *
  generalize (if 3 ≤ m ∧ Spec.isLeap y = true then (1:Int) else 0) = i at *
  omega

/-! ### month / week / weekday: the scan of the month has a closed form -/

/-- the spec's scan, over `Nat` so that it can be tabulated -/
def scanNat (a d len w : Nat) : Nat :=
  let hits := (List.range len).filter (fun i => (a + i) % 7 == d)
  match hits[w - 1]? with
  | some i => i + 1
  | none => match hits.getLast? with
    | some i => i + 1
    | none => 1

/-- the code's closed form -/
def mwdFormula (a d len w : Int) : Int :=
  let first := 1 + (d - a) % 7
  let md := first + (w - 1) * 7
  if md > len then md - 7 else md

theorem scan_table : ∀ a : Nat, a < 7 → ∀ d : Nat, d < 7 → ∀ k : Nat, k < 4 → ∀ w : Nat, w < 5 →
    ((scanNat a d (28 + k) (w + 1) : Nat) : Int) = mwdFormula a d ((28 + k : Nat) : Int) ((w + 1 : Nat) : Int) ∧
    1 ≤ scanNat a d (28 + k) (w + 1) ∧ scanNat a d (28 + k) (w + 1) ≤ 28 + k := by
  decide +kernel

theorem nthWeekday_eq_scan (y m w d : Int) (hd : 0 ≤ d) :
    Spec.nthWeekdayOfMonth y m w d =
      ((scanNat ((4 + Spec.dayNumber y m 1) % 7).toNat d.toNat (Spec.monthLen y m).toNat w.toNat : Nat) : Int) := by
  unfold Spec.nthWeekdayOfMonth scanNat
  simp only []
  have hf : (List.range (Spec.monthLen y m).toNat).filter
        (fun (i : Nat) => Spec.weekdayOfDay (Spec.dayNumber y m 1 + Int.ofNat i) == d) =
      (List.range (Spec.monthLen y m).toNat).filter
        (fun i => (((4 + Spec.dayNumber y m 1) % 7).toNat + i) % 7 == d.toNat) := by
    apply List.filter_congr
    intro i _
    rw [Bool.eq_iff_iff]
    simp only [beq_iff_eq, Spec.weekdayOfDay, Int.ofNat_eq_natCast]
    omega
  have hw : (w - 1).toNat = w.toNat - 1 := by omega
  rw [hf, hw]
  generalize List.filter _ _ = hits
  cases h1 : hits[w.toNat - 1]? with
  | some i => simp
  | none =>
    cases h2 : hits.getLast? with
    | some i => simp
    | none => simp

theorem monthLen_ge (y m : Int) (hm : 1 ≤ m ∧ m ≤ 12) : 28 ≤ Spec.monthLen y m := by
  unfold Spec.monthLen
  have hf : 28 ≤ (if Spec.isLeap y = true then (29:Int) else 28) := by split <;> omega
  generalize (if Spec.isLeap y = true then (29:Int) else 28) = f at hf ⊢
  have : m = 1 ∨ m = 2 ∨ m = 3 ∨ m = 4 ∨ m = 5 ∨ m = 6 ∨ m = 7 ∨ m = 8 ∨ m = 9 ∨ m = 10 ∨ m = 11 ∨ m = 12 := by omega
  rcases this with h | h | h | h | h | h | h | h | h | h | h | h <;> subst h <;> simp <;> omega

theorem mwd_code_eq (m w d y : Int) (hm : 1 ≤ m ∧ m ≤ 12) :
    mwdTransitionDate m w d y =
      (m, mwdFormula ((4 + Spec.dayNumber y m 1) % 7) d (Spec.monthLen y m) w) := by
  rw [monthLen_eq y m hm, ← daysSinceUnixEpoch_eq y m 1 hm]
  rfl

/-- the code's month day is the scanned one, and it is a day of the month -/
theorem mwd_day (m w d y : Int) (hm : 1 ≤ m ∧ m ≤ 12) (hw : 1 ≤ w ∧ w ≤ 5) (hd : 0 ≤ d ∧ d ≤ 6) :
    mwdTransitionDate m w d y = (m, Spec.nthWeekdayOfMonth y m w d) ∧
    1 ≤ Spec.nthWeekdayOfMonth y m w d ∧ Spec.nthWeekdayOfMonth y m w d ≤ Spec.monthLen y m := by
  rw [mwd_code_eq m w d y hm, nthWeekday_eq_scan y m w d hd.1]
  have hl1 := monthLen_ge y m hm
  have hl2 := monthLen_le y m
  generalize Spec.monthLen y m = len at *
  have ha1 : 0 ≤ (4 + Spec.dayNumber y m 1) % 7 := by omega
  have ha2 : (4 + Spec.dayNumber y m 1) % 7 < 7 := by omega
  generalize (4 + Spec.dayNumber y m 1) % 7 = a at *
  obtain ⟨t1, t2, t3⟩ := scan_table a.toNat (by omega) d.toNat (by omega) (len.toNat - 28) (by omega)
    (w.toNat - 1) (by omega)
  have e1 : 28 + (len.toNat - 28) = len.toNat := by omega
  have e2 : w.toNat - 1 + 1 = w.toNat := by omega
  rw [e1, e2] at t1 t2 t3
  have c1 : ((a.toNat : Nat) : Int) = a := by omega
  have c2 : ((d.toNat : Nat) : Int) = d := by omega
  have c3 : ((len.toNat : Nat) : Int) = len := by omega
  have c4 : ((w.toNat : Nat) : Int) = w := by omega
  rw [c1, c2, c3, c4] at t1
  rw [t1]
  refine ⟨rfl, ?_, ?_⟩
  · rw [← t1]; omega
  · rw [← t1]; omega

theorem mwd_unixTime (m w d y t : Int) (hm : 1 ≤ m ∧ m ≤ 12) (hw : 1 ≤ w ∧ w ≤ 5) (hd : 0 ≤ d ∧ d ≤ 6) :
    (RuleDay.mwd m w d).unixTime y t = 86400 * Spec.ruleDayNumber (.mwd m w d) y + t := by
  show daysSinceUnixEpoch y (mwdTransitionDate m w d y).1 (mwdTransitionDate m w d y).2 * SECONDS_PER_DAY + t =
    86400 * Spec.dayNumber y m (Spec.nthWeekdayOfMonth y m w d) + t
  rw [(mwd_day m w d y hm hw hd).1]
  show daysSinceUnixEpoch y m (Spec.nthWeekdayOfMonth y m w d) * SECONDS_PER_DAY + t = _
  rw [daysSinceUnixEpoch_eq _ _ _ hm, c_spd]
  omega

/-! ### every rule day of year `y` lies within [1 Jan y, 1 Jan y + 365] -/

theorem julian1_bounds (n y : Int) (h1 : 1 ≤ n) (h2 : n ≤ 365) :
    Spec.daysBeforeYear y ≤ Spec.ruleDayNumber (.julian1 n) y ∧
    Spec.ruleDayNumber (.julian1 n) y ≤ Spec.daysBeforeYear y + 365 := by
  show _ ≤ Spec.daysBeforeYear y + (n - 1) + (if (Spec.isLeap y && decide (n ≥ 60)) = true then 1 else 0) ∧
    Spec.daysBeforeYear y + (n - 1) + (if (Spec.isLeap y && decide (n ≥ 60)) = true then 1 else 0) ≤ _
  split <;> omega

theorem julian0_bounds (n y : Int) (h1 : 0 ≤ n) (h2 : n ≤ 365) :
    Spec.daysBeforeYear y ≤ Spec.ruleDayNumber (.julian0 n) y ∧
    Spec.ruleDayNumber (.julian0 n) y ≤ Spec.daysBeforeYear y + 365 := by
  show _ ≤ Spec.daysBeforeYear y + n ∧ Spec.daysBeforeYear y + n ≤ _
  omega

theorem mwd_bounds (m w d y : Int) (hm : 1 ≤ m ∧ m ≤ 12) (hw : 1 ≤ w ∧ w ≤ 5) (hd : 0 ≤ d ∧ d ≤ 6) :
    Spec.daysBeforeYear y ≤ Spec.ruleDayNumber (.mwd m w d) y ∧
    Spec.ruleDayNumber (.mwd m w d) y ≤ Spec.daysBeforeYear y + 365 := by
  show _ ≤ Spec.dayNumber y m (Spec.nthWeekdayOfMonth y m w d) ∧
    Spec.dayNumber y m (Spec.nthWeekdayOfMonth y m w d) ≤ _
  obtain ⟨-, b1, b2⟩ := mwd_day m w d y hm hw hd
  have hb := dayInYear_bounds y m _ ⟨hm.1, hm.2, b1, b2⟩
  have hy : Spec.yearLen y ≤ 366 := by unfold Spec.yearLen; split <;> omega
  unfold Spec.dayNumber
  omega

end TzVerif.Proofs
