/-
Monotonicity / injectivity of the spec day number on valid dates.
-/
import TzVerif.Proofs.CalBasic

namespace TzVerif.Proofs
open TzVerif.Model TzVerif.Gen

theorem monthLen_le (y m : Int) : Spec.monthLen y m ≤ 31 := by
  unfold Spec.monthLen
  have hf : (if Spec.isLeap y = true then (29:Int) else 28) ≤ 29 := by split <;> omega
  generalize (if Spec.isLeap y = true then (29:Int) else 28) = f at hf ⊢
  omega

theorem daysBeforeYear_mono (y y' : Int) (h : y ≤ y') :
    Spec.daysBeforeYear y + 365 * (y' - y) ≤ Spec.daysBeforeYear y' := by
  unfold Spec.daysBeforeYear
  omega

theorem cumN_mono (m m' : Int) (h1 : 1 ≤ m) (h2 : m ≤ m') (h3 : m' ≤ 13) : cumN m ≤ cumN m' := by
  have : m = 1 ∨ m = 2 ∨ m = 3 ∨ m = 4 ∨ m = 5 ∨ m = 6 ∨ m = 7 ∨ m = 8 ∨ m = 9 ∨ m = 10 ∨ m = 11 ∨ m = 12 ∨ m = 13 := by omega
  rcases this with h | h | h | h | h | h | h | h | h | h | h | h | h <;> subst h <;>
    unfold cumN <;> omega

theorem daysBeforeMonth_mono (y m m' : Int) (h1 : 1 ≤ m) (h2 : m ≤ m') (h3 : m' ≤ 13) :
    Spec.daysBeforeMonth y m ≤ Spec.daysBeforeMonth y m' := by
  rw [daysBeforeMonth_eq, daysBeforeMonth_eq]
  have := cumN_mono m m' h1 h2 h3
  by_cases hl : Spec.isLeap y = true
  · simp only [hl, and_true]; omega
  · simp only [hl, Bool.false_eq_true, and_false, if_false]; omega

theorem dayInYear_bounds (y m d : Int) (hv : Spec.ValidDate y m d) :
    0 ≤ Spec.daysBeforeMonth y m + (d - 1) ∧ Spec.daysBeforeMonth y m + (d - 1) < Spec.yearLen y := by
  obtain ⟨h1, h2, h3, h4⟩ := hv
  have a := daysBeforeMonth_mono y 1 m (by omega) h1 (by omega)
  have b := daysBeforeMonth_mono y (m + 1) 13 (by omega) (by omega) (by omega)
  rw [Spec.daysBeforeMonth_first] at a
  rw [Spec.daysBeforeMonth_end, Spec.daysBeforeMonth_succ y m h1 h2] at b
  omega

theorem dayNumber_lt_of_lex (y m d y' m' d' : Int)
    (hv : Spec.ValidDate y m d) (hv' : Spec.ValidDate y' m' d')
    (hlex : y < y' ∨ (y = y' ∧ (m < m' ∨ (m = m' ∧ d < d')))) :
    Spec.dayNumber y m d < Spec.dayNumber y' m' d' := by
  unfold Spec.dayNumber
  have b := dayInYear_bounds y m d hv
  have b' := dayInYear_bounds y' m' d' hv'
  rcases hlex with h | ⟨rfl, h | ⟨rfl, h⟩⟩
  · have s := Spec.daysBeforeYear_succ y
    have mo := daysBeforeYear_mono (y + 1) y' (by omega)
    omega
  · obtain ⟨h1, h2, h3, h4⟩ := hv
    obtain ⟨h1', h2', h3', h4'⟩ := hv'
    have s := Spec.daysBeforeMonth_succ y m h1 h2
    have mo := daysBeforeMonth_mono y (m + 1) m' (by omega) (by omega) (by omega)
    omega
  · omega

theorem dayNumber_injective (y m d y' m' d' : Int)
    (hv : Spec.ValidDate y m d) (hv' : Spec.ValidDate y' m' d')
    (e : Spec.dayNumber y m d = Spec.dayNumber y' m' d') : y = y' ∧ m = m' ∧ d = d' := by
  by_cases h1 : y < y' ∨ (y = y' ∧ (m < m' ∨ (m = m' ∧ d < d')))
  · have := dayNumber_lt_of_lex y m d y' m' d' hv hv' h1; omega
  · by_cases h2 : y' < y ∨ (y' = y ∧ (m' < m ∨ (m' = m ∧ d' < d)))
    · have := dayNumber_lt_of_lex y' m' d' y m d hv' hv h2; omega
    · omega

/-- the year of a valid date is determined by its day number -/
theorem year_le_iff (y m d Y : Int) (hv : Spec.ValidDate y m d) :
    (Y ≤ y ↔ Spec.daysBeforeYear Y ≤ Spec.dayNumber y m d) ∧
    (y ≤ Y ↔ Spec.dayNumber y m d < Spec.daysBeforeYear (Y + 1)) := by
  unfold Spec.dayNumber
  have b := dayInYear_bounds y m d hv
  have s := Spec.daysBeforeYear_succ y
  constructor
  · constructor
    · intro h; have := daysBeforeYear_mono Y y h; omega
    · intro h
      by_cases hc : Y ≤ y
      · exact hc
      · have := daysBeforeYear_mono (y + 1) Y (by omega); omega
  · constructor
    · intro h; have := daysBeforeYear_mono (y + 1) (Y + 1) (by omega); omega
    · intro h
      by_cases hc : y ≤ Y
      · exact hc
      · have := daysBeforeYear_mono (Y + 1) y (by omega); omega

end TzVerif.Proofs
