/-
Loop lemmas for SrcEqZone.lean: the binary search macro for an arbitrary key function (with the fact
that the index it returns is a natural number), the forward leap conversion loop, and the two loops of
`check_inputs`. Each lemma is generic in the loop body `f` and takes the body's equation as a hypothesis.
-/
import TzVerif.SrcBase
import TzVerif.Model.TimeZone
import TzVerif.Proofs.SrcEqCal

namespace TzVerif.Proofs.SrcEq
open TzVerif TzVerif.Model TzVerif.Gen

/-! ### binary search with a key function -/

/-- the source result and the model result agree, and the source index is a natural number -/
def BsAgree (r : Except Int Int) (m : BS) : Prop :=
  (∃ k : Nat, r = .ok (k : Int) ∧ m = .found k) ∨ (∃ k : Nat, r = .error (k : Int) ∧ m = .notFound k)

theorem BsAgree.bsOfExcept {r : Except Int Int} {m : BS} (h : BsAgree r m) : bsOfExcept r = m := by
  rcases h with ⟨k, rfl, rfl⟩ | ⟨k, rfl, rfl⟩ <;> simp only [SrcEq.bsOfExcept, Int.toNat_natCast]

/-- `match binary_search(..) { Ok(x) => x + 1, Err(x) => x }` on both sides -/
theorem BsAgree.upper {r : Except Int Int} {m : BS} (h : BsAgree r m) :
    (match r with | .ok x => x + 1 | .error x => x) = ((m.upper : Nat) : Int) := by
  rcases h with ⟨k, rfl, rfl⟩ | ⟨k, rfl, rfl⟩ <;> simp only [BS.upper, Int.natCast_add, Int.cast_ofNat_Int] <;> rfl

theorem bs_loop_g (g : Int → Int) (L : List Int) (hg : ∀ k : Nat, g (k : Int) = L.getD k 0) (x : Int)
    (f : Int × Int × Int → Src.Step (Int × Int × Int) (Except Int Int))
    (hf : ∀ a b s, f (a, b, s) =
      if decide (a < b) then
        (if decide (g (a + Int.tdiv s 2) < x) then
          Src.Step.next (a + Int.tdiv s 2 + 1, b, b - (a + Int.tdiv s 2 + 1))
        else if decide (g (a + Int.tdiv s 2) > x) then
          Src.Step.next (a, a + Int.tdiv s 2, a + Int.tdiv s 2 - a)
        else Src.Step.ret (Except.ok (a + Int.tdiv s 2)))
      else Src.Step.stop (a, b, s)) :
    ∀ (fuel left right : Nat) (a b s : Int), right - left + 1 ≤ fuel → a = left → b = right → s = b - a →
      BsAgree (bsOut (Src.loopR fuel f (a, b, s))) (binarySearchLoop L x left right) := by
  intro fuel
  induction fuel with
  | zero => intro left right a b s h; omega
  | succ fuel ih =>
    intro left right a b s hfu ha hb hs
    rw [binarySearchLoop]
    simp only [Src.loopR, hf]
    by_cases hlt : left < right
    · have hab : a < b := by omega
      have hs0 : 0 ≤ s := by omega
      have hmid : a + Int.tdiv s 2 = ((left + (right - left) / 2 : Nat) : Int) := by
        rw [Int.tdiv_eq_ediv_of_nonneg hs0]; omega
      have hv : g (a + Int.tdiv s 2) = L.getD (left + (right - left) / 2) 0 := by
        rw [hmid]; exact hg _
      rw [hv, hmid]
      simp only [hab, hlt, decide_true, if_true, dite_true]
      by_cases h1 : L.getD (left + (right - left) / 2) 0 < x
      · simp only [h1, decide_true, if_true]
        exact ih (left + (right - left) / 2 + 1) right _ _ _ (by omega) (by omega) hb rfl
      · simp only [h1, decide_false, if_false]
        by_cases h2 : L.getD (left + (right - left) / 2) 0 > x
        · simp only [h2, decide_true, if_true]
          exact ih left (left + (right - left) / 2) _ _ _ (by omega) ha rfl (by omega)
        · simp only [h2, decide_false, Bool.false_eq_true, if_false, bsOut]
          exact Or.inl ⟨_, rfl, rfl⟩
    · have hab : ¬ a < b := by omega
      rw [dif_neg hlt]
      simp only [hab, decide_false, Bool.false_eq_true, if_false, bsOut]
      exact Or.inr ⟨left, by rw [ha], rfl⟩

/-- the body the translator produces for `impl_binary_search!`, as a function of the key function -/
theorem bs_body_eq (g : Int → Int) (x a b s : Int) :
    (if (decide (a < b)) then
      match (if (decide (g (a + Int.tdiv s 2) < x)) then
          (Src.Flow.val (a + Int.tdiv s 2 + 1, b) : Src.Flow (Except Int Int) (Int × Int))
        else
          if (decide (g (a + Int.tdiv s 2) > x)) then
            Src.Flow.val (a, a + Int.tdiv s 2)
          else
            Src.Flow.ret ((Except.ok (a + Int.tdiv s 2)))) with
      | .ret __r => (Src.Step.ret __r : Src.Step (Int × Int × Int) (Except Int Int))
      | .val (left, right) => Src.Step.next (left, right, right - left)
    else Src.Step.stop (a, b, s)) =
    if decide (a < b) then
      (if decide (g (a + Int.tdiv s 2) < x) then
        Src.Step.next (a + Int.tdiv s 2 + 1, b, b - (a + Int.tdiv s 2 + 1))
      else if decide (g (a + Int.tdiv s 2) > x) then
        Src.Step.next (a, a + Int.tdiv s 2, a + Int.tdiv s 2 - a)
      else Src.Step.ret (Except.ok (a + Int.tdiv s 2)))
    else Src.Step.stop (a, b, s) := by
  by_cases h0 : a < b
  · by_cases h1 : g (a + Int.tdiv s 2) < x
    · simp only [h0, h1, decide_true, if_true]
    · by_cases h2 : g (a + Int.tdiv s 2) > x
      · simp only [h0, h1, h2, decide_true, decide_false, if_true, if_false, Bool.false_eq_true]
      · simp only [h0, h1, h2, decide_true, decide_false, if_true, if_false, Bool.false_eq_true]
  · simp only [h0, decide_false, if_false, Bool.false_eq_true]

theorem transition_key (l : List Transition) (k : Nat) :
    Src.Transition.unix_leap_time (Src.idx l (k : Int)) = (l.map (·.unixLeapTime)).getD k 0 := by
  unfold Src.Transition.unix_leap_time Src.idx
  rw [Int.toNat_natCast, List.getD_eq_getElem?_getD, List.getD_eq_getElem?_getD, List.getElem?_map]
  cases l[k]? <;> rfl

theorem leap_key (l : List LeapSecond) (k : Nat) :
    Src.LeapSecond.unix_leap_time (Src.idx l (k : Int)) = (l.map (·.unixLeapTime)).getD k 0 := by
  unfold Src.LeapSecond.unix_leap_time Src.idx
  rw [Int.toNat_natCast, List.getD_eq_getElem?_getD, List.getD_eq_getElem?_getD, List.getElem?_map]
  cases l[k]? <;> rfl

theorem binary_search_transitions_agree (l : List Transition) (x : Int) :
    BsAgree (Src.binary_search_transitions l x) (binarySearch (l.map (·.unixLeapTime)) x) := by
  have h : Src.binary_search_transitions l x
      = bsOut (Src.loopR (Int.toNat ((l.length : Int) + 1)) _ ((0 : Int), (l.length : Int), (l.length : Int))) := rfl
  rw [h]
  unfold binarySearch
  rw [List.length_map]
  refine bs_loop_g (fun m => Src.Transition.unix_leap_time (Src.idx l m)) _ (transition_key l) x _ (fun a b s => ?_)
    (Int.toNat ((l.length : Int) + 1)) 0 l.length 0 l.length l.length (by omega) rfl rfl (by omega)
  exact bs_body_eq (fun m => Src.Transition.unix_leap_time (Src.idx l m)) x a b s

theorem binary_search_leap_seconds_agree (l : List LeapSecond) (x : Int) :
    BsAgree (Src.binary_search_leap_seconds l x) (binarySearch (l.map (·.unixLeapTime)) x) := by
  have h : Src.binary_search_leap_seconds l x
      = bsOut (Src.loopR (Int.toNat ((l.length : Int) + 1)) _ ((0 : Int), (l.length : Int), (l.length : Int))) := rfl
  rw [h]
  unfold binarySearch
  rw [List.length_map]
  refine bs_loop_g (fun m => Src.LeapSecond.unix_leap_time (Src.idx l m)) _ (leap_key l) x _ (fun a b s => ?_)
    (Int.toNat ((l.length : Int) + 1)) 0 l.length 0 l.length l.length (by omega) rfl rfl (by omega)
  exact bs_body_eq (fun m => Src.LeapSecond.unix_leap_time (Src.idx l m)) x a b s

/-! ### indexing -/

theorem idx_nat {α} [Inhabited α] (l : List α) (k : Nat) : Src.idx l (k : Int) = l.getD k default := by
  unfold Src.idx; rw [Int.toNat_natCast]

theorem idx_lt {α} [Inhabited α] (l : List α) (k : Nat) (h : k < l.length) : Src.idx l (k : Int) = l[k] := by
  rw [idx_nat]; simp [List.getD_eq_getElem?_getD, h]

theorem idx_succ_lt {α} [Inhabited α] (l : List α) (k : Nat) (h : k + 1 < l.length) : Src.idx l ((k : Int) + 1) = l[k + 1] := by
  have := idx_lt l (k + 1) h
  rw [Int.natCast_add] at this; exact this

/-! ### the loop of `unix_time_to_unix_leap_time` -/

/-- what `unix_time_to_unix_leap_time` does with the result of its loop -/
def leapOut : (Int × Int) ⊕ Except TzError Int → Except TzError Int
  | .inr r => r
  | .inl (e, _) => .ok e

theorem leap_loop (u : Int) (L : List LeapSecond) (f : Int × Int → Src.Step (Int × Int) (Except TzError Int))
    (hf : ∀ e i, f (e, i) =
      if decide (i < (L.length : Int)) then
        (if decide (e < (Src.idx L i).unixLeapTime) then Src.Step.stop (e, i)
         else if i64Min ≤ u + (Src.idx L i).correction ∧ u + (Src.idx L i).correction ≤ i64Max then
           (if decide (u + (Src.idx L i).correction < (Src.idx L i).unixLeapTime) then Src.Step.stop (e, i)
            else Src.Step.next (u + (Src.idx L i).correction, i + 1))
         else Src.Step.ret (Except.error TzError.outOfRange))
      else Src.Step.stop (e, i)) :
    ∀ (n k : Nat) (e : Int) (fuel : Nat), L.length - k = n → k ≤ L.length → fuel ≥ n + 1 →
      leapOut (Src.loopR fuel f (e, (k : Int))) = leapLoop u (L.drop k) e := by
  intro n
  induction n with
  | zero =>
    intro k e fuel hn hk hfu
    have hk' : k = L.length := by omega
    obtain ⟨fuel', rfl⟩ : ∃ f', fuel = f' + 1 := ⟨fuel - 1, by omega⟩
    have hd : L.drop k = [] := by rw [hk']; exact List.drop_length
    rw [hd]
    simp only [Src.loopR, leapLoop, hf]
    have : ¬ ((k : Int) < (L.length : Int)) := by omega
    simp only [this, decide_false, Bool.false_eq_true, if_false, leapOut]
  | succ n ih =>
    intro k e fuel hn hk hfu
    have hk' : k < L.length := by omega
    obtain ⟨fuel', rfl⟩ : ∃ f', fuel = f' + 1 := ⟨fuel - 1, by omega⟩
    have hd : L.drop k = L[k] :: L.drop (k + 1) := List.drop_eq_getElem_cons hk'
    have hi : Src.idx L (k : Int) = L[k] := idx_lt L k hk'
    rw [hd]
    simp only [Src.loopR, leapLoop, hf, hi]
    have : ((k : Int) < (L.length : Int)) := by omega
    simp only [this, decide_true, if_true]
    by_cases h1 : e < L[k].unixLeapTime
    · simp only [h1, decide_true, if_true, leapOut]
    · simp only [h1, decide_false, Bool.false_eq_true, if_false]
      by_cases h2 : i64Min ≤ u + L[k].correction ∧ u + L[k].correction ≤ i64Max
      · simp only [h2, and_self, if_true, not_true_eq_false, if_false]
        by_cases h3 : u + L[k].correction < L[k].unixLeapTime
        · simp only [h3, decide_true, if_true, leapOut]
        · simp only [h3, decide_false, Bool.false_eq_true, if_false]
          have := ih (k + 1) (u + L[k].correction) fuel' (by omega) (by omega) (by omega)
          rw [Int.natCast_add] at this
          exact this
      · simp only [h2, if_false, not_false_eq_true, if_true, leapOut]

theorem idx_pred {α} [Inhabited α] (l : List α) (m : Nat) (h : 0 < m) :
    Src.idx l ((m : Int) - 1) = l.getD (m - 1) default := by
  unfold Src.idx; congr 1; omega

/-- `if index > 0 { slice[index - 1].field } else { 0 }` with the source's `Int` index and the model's `Nat` index -/
theorem idx_pred_ite {α β} [Inhabited α] (l : List α) (j : Int) (m : Nat) (hj : j = (m : Int)) (g : α → β) (d : β) :
    (if decide (j > 0) then g (Src.idx l (j - 1)) else d)
      = (if m > 0 then g (l.getD (m - 1) default) else d) := by
  subst hj
  by_cases h : m > 0
  · have h' : (m : Int) > 0 := by omega
    simp only [h, h', decide_true, if_true, idx_pred l m h]
  · have h' : ¬ (m : Int) > 0 := by omega
    simp only [h, h', decide_false, if_false, Bool.false_eq_true]

theorem idx_ite_nat {α} [Inhabited α] (l : List α) (c : Prop) [Decidable c] (a : Nat) :
    Src.idx l (if c then (a : Int) else 0) = l.getD (if c then a else 0) default := by
  split
  · exact idx_nat l a
  · exact idx_nat l 0

/-! ### saturating operations -/

theorem sat_i64_sub (a b : Int) : Src.sat_i64 (a - b) = satSubI64 a b := by
  unfold Src.sat_i64 Src.satS satSubI64 i64Min i64Max
  rw [show ((2:Int)^(64-1)) = 9223372036854775808 from by decide]
  rfl

theorem sat_i32_sub (a b : Int) : Src.sat_i32 (a - b) = satSubI32 a b := by
  unfold Src.sat_i32 Src.satS satSubI32 i32Min i32Max
  rw [show ((2:Int)^(32-1)) = 2147483648 from by decide]
  rfl

theorem satSubI32_range (a b : Int) : -2147483648 ≤ satSubI32 a b ∧ satSubI32 a b ≤ 2147483647 := by
  unfold satSubI32 i32Min i32Max
  dsimp only
  split
  · omega
  · split <;> omega

/-- `saturating_abs` of an `i32` value (outside the type's range the unbounded `natAbs` would differ) -/
theorem sat_i32_natAbs (c : Int) (h : -2147483648 ≤ c ∧ c ≤ 2147483647) :
    Src.sat_i32 ((Int.natAbs c : Nat) : Int) = satAbsI32 c := by
  unfold Src.sat_i32 Src.satS satAbsI32 absI i32Min i32Max
  rw [show ((2:Int)^(32-1)) = 2147483648 from by decide]
  by_cases h1 : c = -2147483648
  · subst h1; decide
  · rw [if_neg h1]
    split
    · omega
    · split
      · omega
      · split <;> omega

/-! ### first loop of `check_inputs` -/

theorem checkTransitions_one (n : Nat) (a : Transition) :
    checkTransitions n [a] = if a.localTimeTypeIndex ≥ n then .error (.timeZone .invalidLocalTimeTypeIndex) else .ok () := by
  rw [checkTransitions]

theorem checkTransitions_two (n : Nat) (a b : Transition) (r : List Transition) :
    checkTransitions n (a :: b :: r) =
      if a.localTimeTypeIndex ≥ n then .error (.timeZone .invalidLocalTimeTypeIndex)
      else if a.unixLeapTime ≥ b.unixLeapTime then .error (.timeZone .invalidTransition)
      else checkTransitions n (b :: r) := by
  rw [checkTransitions]

/-- the loop's result as a function of the model's: the final index, or the returned error -/
def loopOfCheck (len : Nat) : Except TzError Unit → Int ⊕ Except TzError Unit
  | .ok () => .inl (len : Int)
  | .error e => .inr (.error e)

theorem transitions_loop (T : List Transition) (N : Nat) (f : Int → Src.Step Int (Except TzError Unit))
    (hf : ∀ i, f i =
      if decide (i < (T.length : Int)) then
        (if decide (((Src.idx T i).localTimeTypeIndex : Int) ≥ (N : Int)) then
          Src.Step.ret (Except.error (TzError.timeZone TimeZoneError.invalidLocalTimeTypeIndex))
         else if (decide (i + 1 < (T.length : Int)) && decide ((Src.idx T i).unixLeapTime ≥ (Src.idx T (i + 1)).unixLeapTime)) then
          Src.Step.ret (Except.error (TzError.timeZone TimeZoneError.invalidTransition))
         else Src.Step.next (i + 1))
      else Src.Step.stop i) :
    ∀ (n k : Nat) (fuel : Nat), T.length - k = n → k ≤ T.length → fuel ≥ n + 1 →
      Src.loopR fuel f (k : Int) = loopOfCheck T.length (checkTransitions N (T.drop k)) := by
  intro n
  induction n with
  | zero =>
    intro k fuel hn hk hfu
    have hk' : k = T.length := by omega
    obtain ⟨fuel', rfl⟩ : ∃ f', fuel = f' + 1 := ⟨fuel - 1, by omega⟩
    have hd : T.drop k = [] := by rw [hk']; exact List.drop_length
    rw [hd]
    simp only [Src.loopR, checkTransitions, hf, loopOfCheck]
    have : ¬ ((k : Int) < (T.length : Int)) := by omega
    simp only [this, decide_false, Bool.false_eq_true, if_false]
    rw [hk']
  | succ n ih =>
    intro k fuel hn hk hfu
    have hk' : k < T.length := by omega
    obtain ⟨fuel', rfl⟩ : ∃ f', fuel = f' + 1 := ⟨fuel - 1, by omega⟩
    have hd : T.drop k = T[k] :: T.drop (k + 1) := List.drop_eq_getElem_cons hk'
    have hi : Src.idx T (k : Int) = T[k] := idx_lt T k hk'
    have hlt : ((k : Int) < (T.length : Int)) := by omega
    have ihk : Src.loopR fuel' f ((k : Int) + 1) = loopOfCheck T.length (checkTransitions N (T.drop (k + 1))) :=
      ih (k + 1) fuel' (by omega) (by omega) (by omega)
    simp only [Src.loopR, hf, hi, hlt, decide_true, if_true]
    by_cases h1 : T[k].localTimeTypeIndex ≥ N
    · have h1' : ((T[k].localTimeTypeIndex : Nat) : Int) ≥ (N : Int) := by omega
      have hm : checkTransitions N (T.drop k) = .error (.timeZone .invalidLocalTimeTypeIndex) := by
        rw [hd]
        cases T.drop (k + 1) with
        | nil => rw [checkTransitions_one, if_pos h1]
        | cons b r => rw [checkTransitions_two, if_pos h1]
      simp only [h1', decide_true, if_true, hm, loopOfCheck]
    · have h1' : ¬ ((T[k].localTimeTypeIndex : Nat) : Int) ≥ (N : Int) := by omega
      simp only [h1', decide_false, Bool.false_eq_true, if_false]
      by_cases h2 : k + 1 < T.length
      · have h2' : (k : Int) + 1 < (T.length : Int) := by omega
        have hd2 : T.drop (k + 1) = T[k + 1] :: T.drop (k + 1 + 1) := List.drop_eq_getElem_cons h2
        have hi2 : Src.idx T ((k : Int) + 1) = T[k + 1] := idx_succ_lt T k h2
        simp only [h2', hi2, decide_true, Bool.true_and]
        rw [hd, hd2, checkTransitions_two, if_neg h1, ← hd2]
        by_cases h3 : T[k].unixLeapTime ≥ T[k + 1].unixLeapTime
        · simp only [h3, decide_true, if_true, loopOfCheck]
        · simp only [h3, decide_false, Bool.false_eq_true, if_false]
          exact ihk
      · have h2' : ¬ (k : Int) + 1 < (T.length : Int) := by omega
        have hd2 : T.drop (k + 1) = [] := List.drop_eq_nil_of_le (by omega)
        simp only [h2', decide_false, Bool.false_and, Bool.false_eq_true, if_false]
        rw [ihk, hd, hd2, checkTransitions_one, if_neg h1, checkTransitions]

/-! ### second loop of `check_inputs` -/

theorem checkLeapPairs_two (a b : LeapSecond) (r : List LeapSecond) :
    checkLeapPairs (a :: b :: r) =
      if (!(decide (satSubI64 b.unixLeapTime a.unixLeapTime ≥ SECONDS_PER_28_DAYS - guardLeapMinIntervalSlack) &&
            satAbsI32 (satSubI32 b.correction a.correction) == 1)) = true
      then .error (.timeZone .invalidLeapSecond) else checkLeapPairs (b :: r) := by
  rw [checkLeapPairs]

theorem leap_pairs_loop (L : List LeapSecond) (f : Int → Src.Step Int (Except TzError Unit))
    (hf : ∀ i, f i =
      if decide (i < (L.length : Int)) then
        (if decide (i + 1 < (L.length : Int)) then
          (if (!(decide (satSubI64 (Src.idx L (i + 1)).unixLeapTime (Src.idx L i).unixLeapTime
                    ≥ SECONDS_PER_28_DAYS - guardLeapMinIntervalSlack) &&
                satAbsI32 (satSubI32 (Src.idx L (i + 1)).correction (Src.idx L i).correction) == 1)) = true then
            Src.Step.ret (Except.error (TzError.timeZone TimeZoneError.invalidLeapSecond))
           else Src.Step.next (i + 1))
         else Src.Step.next (i + 1))
      else Src.Step.stop i) :
    ∀ (n k : Nat) (fuel : Nat), L.length - k = n → k ≤ L.length → fuel ≥ n + 1 →
      Src.loopR fuel f (k : Int) = loopOfCheck L.length (checkLeapPairs (L.drop k)) := by
  intro n
  induction n with
  | zero =>
    intro k fuel hn hk hfu
    have hk' : k = L.length := by omega
    obtain ⟨fuel', rfl⟩ : ∃ f', fuel = f' + 1 := ⟨fuel - 1, by omega⟩
    have hd : L.drop k = [] := by rw [hk']; exact List.drop_length
    rw [hd]
    simp only [Src.loopR, checkLeapPairs, hf, loopOfCheck]
    have : ¬ ((k : Int) < (L.length : Int)) := by omega
    simp only [this, decide_false, Bool.false_eq_true, if_false]
    rw [hk']
  | succ n ih =>
    intro k fuel hn hk hfu
    have hk' : k < L.length := by omega
    obtain ⟨fuel', rfl⟩ : ∃ f', fuel = f' + 1 := ⟨fuel - 1, by omega⟩
    have hd : L.drop k = L[k] :: L.drop (k + 1) := List.drop_eq_getElem_cons hk'
    have hi : Src.idx L (k : Int) = L[k] := idx_lt L k hk'
    have hlt : ((k : Int) < (L.length : Int)) := by omega
    have ihk : Src.loopR fuel' f ((k : Int) + 1) = loopOfCheck L.length (checkLeapPairs (L.drop (k + 1))) :=
      ih (k + 1) fuel' (by omega) (by omega) (by omega)
    simp only [Src.loopR, hf, hi, hlt, decide_true, if_true]
    by_cases h2 : k + 1 < L.length
    · have h2' : (k : Int) + 1 < (L.length : Int) := by omega
      have hd2 : L.drop (k + 1) = L[k + 1] :: L.drop (k + 1 + 1) := List.drop_eq_getElem_cons h2
      have hi2 : Src.idx L ((k : Int) + 1) = L[k + 1] := idx_succ_lt L k h2
      simp only [h2', hi2, decide_true, if_true]
      rw [hd, hd2, checkLeapPairs_two, ← hd2]
      generalize (!(decide (satSubI64 L[k + 1].unixLeapTime L[k].unixLeapTime ≥ SECONDS_PER_28_DAYS - guardLeapMinIntervalSlack) &&
        satAbsI32 (satSubI32 L[k + 1].correction L[k].correction) == 1)) = c
      cases c
      · simp only [Bool.false_eq_true, if_false]
        exact ihk
      · simp only [if_true, loopOfCheck]
    · have h2' : ¬ (k : Int) + 1 < (L.length : Int) := by omega
      have hd2 : L.drop (k + 1) = [] := List.drop_eq_nil_of_le (by omega)
      simp only [h2', decide_false, Bool.false_eq_true, if_false]
      rw [ihk, hd, hd2, checkLeapPairs, checkLeapPairs]

/-- the body the translator produces for the second loop of `check_inputs`, for an arbitrary test `c` -/
theorem pairs_body_eq (c : Bool) (p q : Prop) [Decidable p] [Decidable q] (i : Int) (E : Except TzError Unit) :
    (if decide p then
      match (if decide q then
          (if (!c) = true then (Src.Flow.ret E : Src.Flow (Except TzError Unit) Unit) else Src.Flow.val ())
        else Src.Flow.val ()) with
      | .ret __r => (Src.Step.ret __r : Src.Step Int (Except TzError Unit))
      | .val _ => Src.Step.next (i + 1)
    else Src.Step.stop i) =
    (if decide p then
      (if decide q then (if (!c) = true then Src.Step.ret E else Src.Step.next (i + 1)) else Src.Step.next (i + 1))
    else Src.Step.stop i) := by
  by_cases hp : p <;> by_cases hq : q <;> cases c <;>
    simp only [hp, hq, decide_true, decide_false, if_true, if_false, Bool.false_eq_true, Bool.not_true, Bool.not_false]

theorem ite_bnot_congr {α} (b c : Bool) (x y y' : α) (hb : b = c) (hy : y = y') :
    (if (!b) = true then x else y) = (if (!c) = true then x else y') := by
  rw [hb, hy]

/-- derived `==` on `LocalTimeType` is the model's `equal` -/
theorem ltt_beq_eq (a b : LocalTimeType) : (a == b) = a.equal b := by
  obtain ⟨o, d, n⟩ := a
  obtain ⟨o', d', n'⟩ := b
  rw [Bool.eq_iff_iff]
  simp [LocalTimeType.equal, and_assoc]

end TzVerif.Proofs.SrcEq
