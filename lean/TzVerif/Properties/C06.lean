/-
C06  mktime: skipped local times are reported with their gap; results are in ascending order.

Same scope as C05: PROVED for zones without a DST rule (`*_partial`) and for zones with a DST rule that
satisfies C04's hypotheses (`*_rule_partial`: table gaps, and the gaps opened by the rule's own start/end
instants after the table, including the junction where the last table transition IS a rule instant);
false in the known-finding class F2.
A gap is opened by an *effective* table transition i (every one but a last transition that no rule
follows): at UTC instant T = `instantOf z i` (C12: the instant count Tᵢ denotes) the clock jumps from
offset a (`typeBefore`) to b (`typeAfter`), and the local second count c is in the gap iff T + a ≤ c < T + b.
-/
import TzVerif.Model.Find
import TzVerif.Spec.Zone
import TzVerif.Proofs.Search
import TzVerif.Proofs.SearchRule
import TzVerif.Proofs.SpecGaps
import TzVerif.Proofs.SrcEqFind
import TzVerif.Proofs.SrcEqList
import TzVerif.Generated.StableC06   -- per run: the current translation (SrcNow) equals the baseline (Src) these theorems are about

namespace TzVerif.C06
open TzVerif.Model TzVerif.Proofs

/-- a reported gap is real; its entry is the transition instant on the clock before and after the jump -/
theorem reported_gaps_are_real_partial (y mo d h mi s ns : Int) (z : TimeZone) (rs : List Found)
    (hz : ZoneOK z) (hr : NoDstRule z)
    (hf : findDateTime y mo d h mi s ns z = .ok rs) (b a : DateTime) (hx : Found.skipped b a ∈ rs) :
    ∃ i, Effective z i ∧ GapAt z i (Spec.seconds y mo d h mi s) ∧
      DateTime.fromTimespecAndLocal (instantOf z i) ns (typeBefore z i) = .ok b ∧
      DateTime.fromTimespecAndLocal (instantOf z i) ns (typeAfter z i) = .ok a :=
  gaps_sound y mo d h mi s ns z rs hz hr hf b a hx

/-- every gap containing the searched local time is reported … -/
theorem every_gap_reported_partial (y mo d h mi s ns : Int) (z : TimeZone) (rs : List Found)
    (hz : ZoneOK z) (hr : NoDstRule z)
    (hf : findDateTime y mo d h mi s ns z = .ok rs) (i : Nat) (he : Effective z i)
    (hg : GapAt z i (Spec.seconds y mo d h mi s)) :
    ∃ b a, Found.skipped b a ∈ rs ∧ b.unixTime = instantOf z i ∧ b.localTimeType = typeBefore z i ∧ a.localTimeType = typeAfter z i :=
  gaps_complete y mo d h mi s ns z rs hz hr hf i he hg

/-- … exactly once (no gap is reported otherwise: one entry per effective transition whose gap contains c) -/
theorem gaps_reported_once_partial (y mo d h mi s ns : Int) (z : TimeZone) (rs : List Found)
    (hz : ZoneOK z) (hr : NoDstRule z) (hf : findDateTime y mo d h mi s ns z = .ok rs) :
    (rs.filter isSkipped).length = (gapIndices z (Spec.seconds y mo d h mi s)).length :=
  gaps_count y mo d h mi s ns z rs hz hr hf

/-- all results are listed in ascending order of instant … -/
theorem ascending_partial (y mo d h mi s ns : Int) (z : TimeZone) (rs : List Found)
    (hz : ZoneOK z) (hr : NoDstRule z) (hf : findDateTime y mo d h mi s ns z = .ok rs) :
    List.Pairwise (fun a b => instantOfFound a ≤ instantOfFound b) rs :=
  search_ascending y mo d h mi s ns z rs hz hr hf

/-! zones with a DST rule -/

/-- a reported gap is a table gap, or the gap of a rule start (std → dst) or end (dst → std) instant after the table -/
theorem reported_gaps_are_real_rule_partial (y mo d h mi s ns : Int) (z : TimeZone) (a : AlternateTime) (rs : List Found)
    (hz : ZoneOK z) (hr : z.extraRule = some (.alternate a)) (ha : RuleOK a)
    (hf : findDateTime y mo d h mi s ns z = .ok rs) (b a' : DateTime) (hx : Found.skipped b a' ∈ rs) :
    (∃ i, Effective z i ∧ GapAt z i (Spec.seconds y mo d h mi s) ∧
        DateTime.fromTimespecAndLocal (instantOf z i) ns (typeBefore z i) = .ok b ∧
        DateTime.fromTimespecAndLocal (instantOf z i) ns (typeAfter z i) = .ok a') ∨
    (∃ y', ruleFrom z < Spec.startInstant a y' ∧ RuleGap (Spec.startInstant a y') a.std a.dst (Spec.seconds y mo d h mi s) ∧
        DateTime.fromTimespecAndLocal (Spec.startInstant a y') ns a.std = .ok b ∧
        DateTime.fromTimespecAndLocal (Spec.startInstant a y') ns a.dst = .ok a') ∨
    (∃ y', ruleFrom z < Spec.endInstant a y' ∧ RuleGap (Spec.endInstant a y') a.dst a.std (Spec.seconds y mo d h mi s) ∧
        DateTime.fromTimespecAndLocal (Spec.endInstant a y') ns a.dst = .ok b ∧
        DateTime.fromTimespecAndLocal (Spec.endInstant a y') ns a.std = .ok a') :=
  rule_gaps_sound y mo d h mi s ns z a rs hz hr ha hf b a' hx

theorem every_rule_start_gap_reported_partial (y mo d h mi s ns : Int) (z : TimeZone) (a : AlternateTime) (rs : List Found)
    (hz : ZoneOK z) (hr : z.extraRule = some (.alternate a)) (ha : RuleOK a)
    (hf : findDateTime y mo d h mi s ns z = .ok rs) (y' : Int)
    (hp : ruleFrom z < Spec.startInstant a y')
    (hg : RuleGap (Spec.startInstant a y') a.std a.dst (Spec.seconds y mo d h mi s))
    (hnn : 0 ≤ h ∧ 0 ≤ mi ∧ 0 ≤ s) :
    ∃ b a', Found.skipped b a' ∈ rs ∧ b.unixTime = Spec.startInstant a y' ∧ b.localTimeType = a.std ∧ a'.localTimeType = a.dst :=
  rule_gaps_complete_start y mo d h mi s ns z a rs hz hr ha hf y' hp hg hnn

theorem every_rule_end_gap_reported_partial (y mo d h mi s ns : Int) (z : TimeZone) (a : AlternateTime) (rs : List Found)
    (hz : ZoneOK z) (hr : z.extraRule = some (.alternate a)) (ha : RuleOK a)
    (hf : findDateTime y mo d h mi s ns z = .ok rs) (y' : Int)
    (hp : ruleFrom z < Spec.endInstant a y')
    (hg : RuleGap (Spec.endInstant a y') a.dst a.std (Spec.seconds y mo d h mi s))
    (hnn : 0 ≤ h ∧ 0 ≤ mi ∧ 0 ≤ s) :
    ∃ b a', Found.skipped b a' ∈ rs ∧ b.unixTime = Spec.endInstant a y' ∧ b.localTimeType = a.dst ∧ a'.localTimeType = a.std :=
  rule_gaps_complete_end y mo d h mi s ns z a rs hz hr ha hf y' hp hg hnn

theorem every_table_gap_reported_rule_partial (y mo d h mi s ns : Int) (z : TimeZone) (a : AlternateTime) (rs : List Found)
    (hz : ZoneOK z) (hr : z.extraRule = some (.alternate a)) (ha : RuleOK a)
    (hf : findDateTime y mo d h mi s ns z = .ok rs) (i : Nat) (he : Effective z i)
    (hg : GapAt z i (Spec.seconds y mo d h mi s)) :
    ∃ b a', Found.skipped b a' ∈ rs ∧ b.unixTime = instantOf z i ∧ b.localTimeType = typeBefore z i ∧ a'.localTimeType = typeAfter z i :=
  rule_table_gaps_complete y mo d h mi s ns z a rs hz hr ha hf i he hg

theorem ascending_rule_partial (y mo d h mi s ns : Int) (z : TimeZone) (a : AlternateTime) (rs : List Found)
    (hz : ZoneOK z) (hr : z.extraRule = some (.alternate a)) (ha : RuleOK a)
    (hf : findDateTime y mo d h mi s ns z = .ok rs) :
    List.Pairwise (fun p q => instantOfFound p ≤ instantOfFound q) rs :=
  rule_search_ascending y mo d h mi s ns z a rs hz hr ha hf

/-- … so that `earliest` / `latest` (first / last element, on the clock before / after for a gap) are the
    true extremes, and `unique` is present exactly when there is a single valid result and nothing else -/
theorem unique_iff (rs : List Found) (x : DateTime) : listUnique rs = some x ↔ rs = [.normal x] := by
  constructor
  · intro h
    cases rs with
    | nil => simp [listUnique] at h
    | cons f fs =>
      cases fs with
      | nil =>
        cases f with
        | normal d => simp [listUnique] at h; rw [h]
        | skipped b a => simp [listUnique] at h
      | cons g gs => simp [listUnique] at h
  · intro h; rw [h]; rfl

theorem earliest_is_first (rs : List Found) :
    listEarliest rs = rs.head?.map (fun f => match f with | .normal d => d | .skipped b _ => b) := by
  unfold listEarliest
  cases rs with
  | nil => rfl
  | cons f _ => cases f <;> rfl

theorem latest_is_last (rs : List Found) :
    listLatest rs = rs.getLast?.map (fun f => match f with | .normal d => d | .skipped _ a => a) := by
  unfold listLatest
  cases rs.getLast? with
  | none => rfl
  | some f => cases f <;> rfl

/-- non-vacuity: a one-hour forward transition, local time inside the gap: one Skipped entry -/
example :
    let t0 : LocalTimeType := { utOffset := 0, isDst := false, name := none }
    let t1 : LocalTimeType := { utOffset := 3600, isDst := true, name := none }
    let z : TimeZone := { transitions := [⟨3600, 1⟩, ⟨86400, 0⟩, ⟨172800, 0⟩], localTimeTypes := [t0, t1], leapSeconds := [], extraRule := none }
    (findDateTime 1970 1 1 1 30 0 0 z).toOption.map (fun rs => (rs.length, rs.filter isSkipped |>.length)) = some (1, 1) := by
  decide +kernel

/-- The gap part of C06 as ONE set equality against the executable specification the differential oracle uses
    (`C06.gaps_reported_exactly`): for every zone the constructor accepts whose rule (if any) meets C04's
    hypotheses, and searched fields of the Rust argument types with the year at least three inside the year guard,
    the reported gaps are exactly `Spec.gapSet` — the forward transitions (table, then rule instants after the
    table) with T + offset_before ≤ c < T + offset_after. -/
theorem reported_gaps_are_the_spec_set (y mo d h mi s ns : Int) (z : TimeZone) (rs : List Found)
    (hz : ZoneGood z) (hfd : FieldsGood y mo d h mi s)
    (hf : findDateTime y mo d h mi s ns z = .ok rs) (T : Int) (a b : LocalTimeType) :
    (T, a, b) ∈ Spec.gapSet z (Spec.seconds y mo d h mi s) ↔
      ∃ xb xa, Found.skipped xb xa ∈ rs ∧ xb.unixTime = T ∧ xb.localTimeType = a ∧ xa.localTimeType = b :=
  gaps_are_gapSet y mo d h mi s ns z rs hz hfd hf T a b

theorem spec_gap_set_meaning (z : TimeZone) (c T : Int) (a b : LocalTimeType) :
    (T, a, b) ∈ Spec.gapSet z c ↔ ((T, a, b) ∈ Spec.transitionsNear z c ∧ T + a.utOffset ≤ c ∧ c < T + b.utOffset) :=
  gapSet_mem_iff z c T a b

/-! ### The same about the source text
`TzVerif.Src.find_date_time` is src/datetime/find.rs `find_date_time` translated to Lean on every run
(tools/rs2lean.py, DESIGN §13): both loops, the memoising `get_time` closure and every early return. It equals
the model's search, so every theorem of this file is about the code as it is now. -/

theorem translated_source_is_the_model (y mo d h mi s ns : Int) (z : TimeZone) :
    Src.find_date_time [] y mo d h mi s ns z = findDateTime y mo d h mi s ns z :=
  SrcEq.find_date_time_eq y mo d h mi s ns z

/-- `reported_gaps_are_the_spec_set` about the translated search -/
theorem reported_gaps_are_the_spec_set_src (y mo d h mi s ns : Int) (z : TimeZone) (rs : List Found)
    (hz : ZoneGood z) (hfd : FieldsGood y mo d h mi s)
    (hf : Src.find_date_time [] y mo d h mi s ns z = .ok rs) (T : Int) (a b : LocalTimeType) :
    (T, a, b) ∈ Spec.gapSet z (Spec.seconds y mo d h mi s) ↔
      ∃ xb xa, Found.skipped xb xa ∈ rs ∧ xb.unixTime = T ∧ xb.localTimeType = a ∧ xa.localTimeType = b :=
  reported_gaps_are_the_spec_set y mo d h mi s ns z rs hz hfd (SrcEq.find_date_time_eq y mo d h mi s ns z ▸ hf) T a b

/-- the accessor clauses about the translated `FoundDateTimeList::{unique, earliest, latest}` (src/datetime/find.rs):
    `unique` answers exactly for one valid result; `earliest` / `latest` are the first / last entry, a gap counting
    with its before / after representation -/
theorem accessors_src (rs : List Found) :
    (∀ x, Src.FoundDateTimeList.unique rs = some x ↔ rs = [.normal x]) ∧
    Src.FoundDateTimeList.earliest rs = rs.head?.map (fun f => match f with | .normal d => d | .skipped b _ => b) ∧
    Src.FoundDateTimeList.latest rs = rs.getLast?.map (fun f => match f with | .normal d => d | .skipped _ a => a) := by
  refine ⟨fun x => ?_, ?_, ?_⟩
  · rw [Proofs.SrcEq.list_unique_eq]; exact unique_iff rs x
  · rw [Proofs.SrcEq.list_earliest_eq]; exact earliest_is_first rs
  · rw [Proofs.SrcEq.list_latest_eq]; exact latest_is_last rs

end TzVerif.C06
