/-
C12  Leap seconds: UTC <-> leap-count conversions are monotone, consistent, and drive lookups.

`Spec.toUtc ls T` is the UTC instant that count `T` denotes ("subtract the correction of the last
record before T"). The forward conversion of the code (`unixTimeToUnixLeapTime`, the running-estimate
loop, after the `fix:` commit) is characterised by the Galois connection `T ≤ toCount u ↔ toUtc T ≤ u`:
that single statement is "a transition recorded at T takes effect exactly at the UTC instant T denotes"
(with C03: the lookup uses `T ≤ toCount u`) and "the instant the search reports (`toUtc T`) is the very
instant at which the forward lookup switches type".
-/
import TzVerif.Model.TimeZone
import TzVerif.Spec.Zone
import TzVerif.Proofs.Leap
import TzVerif.Proofs.SrcEqZone
import TzVerif.Generated.StableC12   -- per run: the current translation (SrcNow) equals the baseline (Src) these theorems are about

namespace TzVerif.C12
open TzVerif.Model

/-- the backward conversion of the code is the spec's `toUtc` (refusing `i64::MIN` and overflow) -/
theorem to_utc_correct (ls : List LeapSecond) (hwf : Spec.LeapWF ls) (T : Int) :
    unixLeapTimeToUnixTime ls T =
      (if T = i64Min then .error .outOfRange
       else if i64Min ≤ Spec.toUtc ls T ∧ Spec.toUtc ls T ≤ i64Max then .ok (Spec.toUtc ls T)
       else .error .outOfRange) :=
  Proofs.unixLeapTimeToUnixTime_eq ls hwf T

/-- A transition recorded at count T takes effect exactly at the UTC instant T denotes. -/
theorem takes_effect_exactly (ls : List LeapSecond) (hwf : Spec.LeapWF ls) (u k T : Int)
    (h : unixTimeToUnixLeapTime ls u = .ok k) : T ≤ k ↔ Spec.toUtc ls T ≤ u :=
  Proofs.galois ls hwf u k T h

/-- both mappings are monotone -/
theorem to_utc_monotone (ls : List LeapSecond) (hwf : Spec.LeapWF ls) (T T' : Int) (h : T ≤ T') :
    Spec.toUtc ls T ≤ Spec.toUtc ls T' :=
  Proofs.toUtc_mono ls hwf T T' h

theorem to_count_monotone (ls : List LeapSecond) (hwf : Spec.LeapWF ls) (u u' k k' : Int) (h : u ≤ u')
    (hk : unixTimeToUnixLeapTime ls u = .ok k) (hk' : unixTimeToUnixLeapTime ls u' = .ok k') : k ≤ k' :=
  Proofs.toCount_mono ls hwf u u' k k' h hk hk'

/-- UTC -> count -> UTC is the identity for every instant not deleted by a negative leap second -/
theorem roundtrip (ls : List LeapSecond) (hwf : Spec.LeapWF ls) (u k : Int) (hnd : ¬ Spec.Deleted ls u)
    (hk : unixTimeToUnixLeapTime ls u = .ok k) : Spec.toUtc ls k = u :=
  Proofs.roundtrip ls hwf u k hnd hk

/-- the forward conversion fails only by overflow at the ends of i64 -/
theorem to_count_total (ls : List LeapSecond) (hr : Spec.LeapInRange ls) (u : Int) (e : TzError)
    (h : unixTimeToUnixLeapTime ls u = .error e) :
    e = .outOfRange ∧ (u < i64Min + 2147483648 ∨ u > i64Max - 2147483648) :=
  Proofs.toCount_error_only_overflow ls hr u e h

/-- An inserted leap second shares the UTC value of the second that follows it. -/
theorem inserted_shares (pre post : List LeapSecond) (l : LeapSecond) (hwf : Spec.LeapWF (pre ++ l :: post))
    (hins : l.correction = Spec.corrBefore (pre ++ l :: post) l.unixLeapTime + 1) :
    Spec.toUtc (pre ++ l :: post) l.unixLeapTime = Spec.toUtc (pre ++ l :: post) (l.unixLeapTime + 1) :=
  Proofs.inserted_shares pre post l hwf hins

/-- A negative leap second deletes exactly one UTC value. -/
theorem deleted_skips (pre post : List LeapSecond) (l : LeapSecond) (hwf : Spec.LeapWF (pre ++ l :: post))
    (hdel : l.correction = Spec.corrBefore (pre ++ l :: post) l.unixLeapTime - 1) :
    Spec.toUtc (pre ++ l :: post) (l.unixLeapTime + 1) = Spec.toUtc (pre ++ l :: post) l.unixLeapTime + 2 :=
  Proofs.deleted_skips pre post l hwf hdel

/-- The function as it was before the `fix:` commit violates `takes_effect_exactly` (F3): with the
    table [(1000, −1)] it maps UTC 1000 to count 999, although count 1000 denotes UTC 1000. -/
theorem legacy_counterexample :
    let ls : List LeapSecond := [⟨1000, -1⟩]
    Spec.LeapWF ls ∧ unixTimeToUnixLeapTimeLegacy ls 1000 = .ok 999 ∧ Spec.toUtc ls 1000 = 1000 ∧
    ¬ ((1000 : Int) ≤ 999 ↔ Spec.toUtc ls 1000 ≤ 1000) ∧
    unixTimeToUnixLeapTime ls 1000 = .ok 1000 := by
  refine ⟨?_, by decide, by decide, by decide, by decide⟩
  simp [Spec.LeapWF, Spec.LeapStepsOK]

/-- non-vacuity: a real-shaped table (two insertions 28 days − 1 s apart) satisfies the hypotheses -/
example : Spec.LeapWF [⟨78796800, 1⟩, ⟨78796800 + 2419199, 2⟩] := by
  simp [Spec.LeapWF, Spec.LeapStepsOK]

/-! ### The same about the source text
`TzVerif.Src.*` is the Rust source translated to Lean on every run (tools/rs2lean.py, DESIGN §13); the
equalities below tie every theorem of this file, which is about the model, to the code as it is now. -/

theorem translated_source_is_the_model :
    (∀ (z : TimeZone) u, Src.TimeZoneRef.unix_time_to_unix_leap_time z u = unixTimeToUnixLeapTime z.leapSeconds u) ∧
    (∀ (z : TimeZone) T, Src.TimeZoneRef.unix_leap_time_to_unix_time z T = unixLeapTimeToUnixTime z.leapSeconds T) ∧
    (∀ (l : List LeapSecond) x, Proofs.SrcEq.bsOfExcept (Src.binary_search_leap_seconds l x) = binarySearch (l.map (·.unixLeapTime)) x) :=
  ⟨Proofs.SrcEq.unix_time_to_unix_leap_time_eq, Proofs.SrcEq.unix_leap_time_to_unix_time_eq, Proofs.SrcEq.binary_search_leap_seconds_eq⟩

/-- the Galois connection about the translated forward conversion -/
theorem takes_effect_exactly_src (z : TimeZone) (hwf : Spec.LeapWF z.leapSeconds) (u k T : Int)
    (h : Src.TimeZoneRef.unix_time_to_unix_leap_time z u = .ok k) : T ≤ k ↔ Spec.toUtc z.leapSeconds T ≤ u :=
  takes_effect_exactly z.leapSeconds hwf u k T (Proofs.SrcEq.unix_time_to_unix_leap_time_eq z u ▸ h)

theorem to_utc_correct_src (z : TimeZone) (hwf : Spec.LeapWF z.leapSeconds) (T : Int) :
    Src.TimeZoneRef.unix_leap_time_to_unix_time z T =
      (if T = i64Min then .error .outOfRange
       else if i64Min ≤ Spec.toUtc z.leapSeconds T ∧ Spec.toUtc z.leapSeconds T ≤ i64Max then .ok (Spec.toUtc z.leapSeconds T)
       else .error .outOfRange) := by
  rw [Proofs.SrcEq.unix_leap_time_to_unix_time_eq]; exact to_utc_correct z.leapSeconds hwf T

end TzVerif.C12
