/-
C08  TZif decoding is faithful: a well-formed v1/v2/v3 file yields exactly its zone.

`Spec/Tzif.lean` is an independent writer whose parameter space is the whole accepted layout
(arbitrary reserved bytes, explicit designation table + indices so that strings may be shared or
overlap, explicit isstd/isut vectors, and for versions 2/3 an ARBITRARY well-sized 32-bit block in
front). Laxities that the property does not list and that are therefore part of the characterisation,
not findings: the version byte of the *second* header (not the first) selects the extension mode and
may itself be 0; the 15 reserved bytes are not inspected.
-/
import TzVerif.Model.TzFile
import TzVerif.Spec.Tzif
import TzVerif.Proofs.TzifRoundTrip
import TzVerif.Proofs.TzifReject
import TzVerif.Proofs.TzifSound
import TzVerif.Proofs.SrcEqTzString
import TzVerif.Proofs.SrcEqTzFile
import TzVerif.Proofs.SrcEqOwned
import TzVerif.Generated.StableC08   -- per run: the current translation (SrcNow) equals the baseline (Src) these theorems are about

namespace TzVerif.C08
open TzVerif.Model TzVerif.Proofs

/-- big-endian fields read back as written (4- and 8-byte two's complement) -/
theorem big_endian_roundtrip (n : Nat) (v : Int) (hn : 0 < n) (hv : -(2 ^ (8 * n - 1) : Int) ≤ v ∧ v < 2 ^ (8 * n - 1)) :
    beSigned (Spec.beBytes n v) = v ∧ (Spec.beBytes n v).length = n ∧ ∀ b ∈ Spec.beBytes n v, b < 256 :=
  beSigned_beBytes n v hn hv

/-- version 1: transitions, types (offset, DST flag, designation at the stated index), leap records
    exactly as encoded, from the 32-bit block (sign-extended); no rule.
    `hn`: the zone's types are local time types the library can hold (C13: offset ≠ i32::MIN, name
    3–7 characters of the alphabet) — without it the statement is false
    (`Proofs.decode_encode_v1_false_without_names`, `…_without_offset`). -/
theorem decode_encode_v1 (z : TimeZone) (l : Spec.Layout) (hl : Spec.LayoutOK z l) (hv : l.versionByte = 0)
    (ht : Spec.TimesFit 32 z)
    (hn : ∀ t ∈ z.localTimeTypes, ∃ t', LocalTimeType.new t.utOffset t.isDst t.name = .ok t') :
    parseTzFile (Spec.encodeV1 z l) = TimeZone.new z.transitions z.localTimeTypes z.leapSeconds none :=
  Proofs.decode_encode_v1 z l hl hv ht hn

/-- versions 2 and 3: from the 64-bit block, IGNORING the 32-bit one; footer rule with extensions
    honoured only for version 3 -/
theorem decode_encode_v2_v3 (v1 : Bytes) (z : TimeZone) (l : Spec.Layout) (footerText : Bytes)
    (h1 : Spec.V1BlockOK v1) (hl : Spec.LayoutOK z l) (hv : l.versionByte = 0 ∨ l.versionByte = 50 ∨ l.versionByte = 51)
    (ht : Spec.TimesFit 64 z)
    (hn : ∀ t ∈ z.localTimeTypes, ∃ t', LocalTimeType.new t.utOffset t.isDst t.name = .ok t') :
    parseTzFile (Spec.encodeV2 v1 z l footerText) =
      (match parseFooter ([10] ++ footerText ++ [10]) (l.versionByte == 51) with
       | .error e => .error e
       | .ok rule => TimeZone.new z.transitions z.localTimeTypes z.leapSeconds rule) :=
  Proofs.decode_encode_v2 v1 z l footerText h1 hl hv ht hn

/-! the named rejections -/

theorem bad_magic (b : Bytes) (h : b.take 4 ≠ [84, 90, 105, 102]) :
    parseTzFile b = .error (.tzFile .invalidMagicNumber) ∨ parseTzFile b = .error (.tzFile (.parseData .unexpectedEof)) :=
  reject_short_or_bad_magic b h

theorem bad_version (rest : Bytes) (v : Nat) (hv : v ≠ 0 ∧ v ≠ 50 ∧ v ≠ 51) :
    parseTzFile ([84, 90, 105, 102, v] ++ rest) = .error (.tzFile .unsupportedTzFileVersion) :=
  reject_bad_version rest v hv

theorem inconsistent_counts (c : Bytes) (h : Header) (rest : Bytes) (hp : parseHeader c = .ok (h, rest)) :
    h.typeCount ≠ 0 ∧ h.charCount ≠ 0 ∧ (h.utLocalCount = 0 ∨ h.utLocalCount = h.typeCount) ∧
    (h.stdWallCount = 0 ∨ h.stdWallCount = h.typeCount) ∧ (h.version = 1 ∨ h.version = 2 ∨ h.version = 3) :=
  reject_bad_counts c h rest hp

theorem truncated_block (ts : Nat) (c : Bytes) (h : Header)
    (hlen : c.length < h.transitionCount * ts + h.transitionCount + h.typeCount * 6 + h.charCount +
              h.leapCount * (ts + 4) + h.stdWallCount + h.utLocalCount) :
    readDataBlocks ts c h = .error (.parseData .unexpectedEof) :=
  reject_truncated_block ts c h hlen

theorem truncated_v1 (z : TimeZone) (l : Spec.Layout) (hl : Spec.LayoutOK z l) (hv : l.versionByte = 0)
    (ht : Spec.TimesFit 32 z) (n : Nat) (hn : n < (Spec.encodeV1 z l).length) :
    ∃ e, parseTzFile ((Spec.encodeV1 z l).take n) = .error e :=
  v1_truncated_rejected z l hl hv ht n hn

theorem trailing_bytes_v1 (z : TimeZone) (l : Spec.Layout) (hl : Spec.LayoutOK z l) (hv : l.versionByte = 0)
    (ht : Spec.TimesFit 32 z) (extra : Bytes) (he : extra ≠ []) :
    parseTzFile (Spec.encodeV1 z l ++ extra) = .error (.tzFile .remainingDataV1) :=
  v1_trailing_rejected z l hl hv ht extra he

theorem type_record (des : Bytes) (cc : Nat) (d : Bytes) (t : LocalTimeType)
    (h : parseLocalTimeType des cc d = .ok t) :
    (d.getD 4 0 = 0 ∨ d.getD 4 0 = 1) ∧ d.getD 5 0 < cc ∧ 0 ∈ des.drop (d.getD 5 0) ∧
    t.isDst = (d.getD 4 0 == 1) ∧ t.utOffset = beSigned (d.take 4) ∧
    t.name = (if (des.drop (d.getD 5 0)).takeWhile (· != 0) = [] then none else some ((des.drop (d.getD 5 0)).takeWhile (· != 0))) :=
  reject_bad_type_record des cc d t h

theorem indicator_pairs (n : Nat) (sw ul : Bytes) :
    indicatorPairsOk n sw ul = true ↔
      ∀ i, i < n → ((sw.getD i 0 = 0 ∧ ul.getD i 0 = 0) ∨ (sw.getD i 0 = 1 ∧ ul.getD i 0 = 0) ∨ (sw.getD i 0 = 1 ∧ ul.getD i 0 = 1)) :=
  indicator_pairs_iff n sw ul

theorem accepted_files_are_well_formed (b : Bytes) (z : TimeZone) (h : parseTzFile b = .ok z) :
    ∃ hd rest, parseHeader b = .ok (hd, rest) ∧
      ((hd.version = 1 ∧ ∃ blocks, readDataBlocks 4 rest hd = .ok (blocks, [])) ∨
       (hd.version ≠ 1 ∧ ∃ b1 rest1 hd2 rest2 b2 footer rule,
          readDataBlocks 4 rest hd = .ok (b1, rest1) ∧ parseHeader rest1 = .ok (hd2, rest2) ∧
          readDataBlocks 8 rest2 hd2 = .ok (b2, footer) ∧ parseFooter footer (hd2.version == 3) = .ok rule ∧
          z.extraRule = rule)) :=
  accepted_structure b z h

/-- F4 (fixed in /repo): the footer test as it was accepted a lone newline; the repaired one refuses it -/
theorem legacy_counterexample :
    (parseFooterLegacy [10] false).isOk = true ∧ parseFooter [10] false = .error (.tzFile .invalidFooter) := by
  decide

/-- SOUNDNESS (the converse of the round trip): whatever bytes the decoder accepts as a version-1 file ARE a
    file the independent writer produces for the decoded zone under some layout — nothing is accepted that is
    not a well-formed file denoting exactly the answer. -/
theorem accepted_v1_is_written (b : Bytes) (hb : ∀ x ∈ b, x < 256) (z : TimeZone) (h : parseTzFile b = .ok z)
    (hv : b.getD 4 0 = 0) :
    ∃ l : Spec.Layout, Spec.LayoutOK z l ∧ l.versionByte = 0 ∧ Spec.TimesFit 32 z ∧ z.extraRule = none ∧
      b = Spec.encodeV1 z l :=
  decode_sound_v1 b hb z h hv

/-- the same for versions 2 and 3: a well-sized 32-bit block, the writer's 64-bit block for the decoded zone,
    and a footer whose text denotes the zone's rule -/
theorem accepted_v2_is_written (b : Bytes) (hb : ∀ x ∈ b, x < 256) (z : TimeZone) (h : parseTzFile b = .ok z)
    (hv : b.getD 4 0 ≠ 0) :
    ∃ (v1 : Bytes) (l : Spec.Layout) (footerText : Bytes),
      Spec.V1BlockOK v1 ∧ Spec.LayoutOK z l ∧ (l.versionByte = 0 ∨ l.versionByte = 50 ∨ l.versionByte = 51) ∧
      Spec.TimesFit 64 z ∧ b = Spec.encodeV2 v1 z l footerText ∧
      parseFooter ([10] ++ footerText ++ [10]) (l.versionByte == 51) = .ok z.extraRule :=
  decode_sound_v2 b hb z h hv

/-- the footer of version-2/3 files is decoded by this parser: src/parse/tz_string.rs translated to Lean on every run (DESIGN §13) equals the model's
    `parsePosixTz` used by the theorems above -/
theorem translated_parser_is_the_model (s : TzVerif.Model.Bytes) (ext : Bool) :
    Src.parse_posix_tz s ext = TzVerif.Model.parsePosixTz s ext :=
  TzVerif.Proofs.SrcEq.parse_posix_tz_eq s ext

/-! ### The same about the source text
`TzVerif.Src.parse_tz_file` and its helpers are src/parse/tz_file.rs translated to Lean on every run
(tools/rs2lean.py, DESIGN §13): header, data blocks, the three record loops, the indicator check, the v1 / v2+ dispatch.
They equal the model's decoder for ALL byte lists, so the round-trip, rejection and soundness theorems of this file are
about the code as it is now. -/

theorem translated_source_is_the_model :
    (∀ b, Src.parse_tz_file b = parseTzFile b) ∧
    (∀ c, (Src.parse_header c).map (fun p => (SrcEq.hdrOf p.1, p.2)) = parseHeader c) ∧
    (∀ (ts : Nat) c h, SrcEq.HeaderNonneg h →
        (Src.read_data_blocks (ts : Int) c h).map (fun p => (SrcEq.dbOf p.1, p.2)) = readDataBlocks ts c (SrcEq.hdrOf h)) ∧
    (∀ (ts : Nat), ts = 4 ∨ ts = 8 → ∀ d h, SrcEq.HeaderNonneg h → ∀ footer,
        Src.DataBlocks.parse (ts : Int) d h footer = (SrcEq.dbOf d).parse ts (SrcEq.hdrOf h) footer) ∧
    (∀ b, Src.be_signed b = beSigned b) :=
  ⟨SrcEq.parse_tz_file_eq, SrcEq.parse_header_eq, fun ts c h hn => SrcEq.read_data_blocks_eq ts c h hn,
   fun ts hts d h hn footer => SrcEq.data_blocks_parse_eq ts hts d h hn footer, SrcEq.be_signed_eq⟩

/-- round trip and soundness about the translated decoder -/
theorem decode_encode_v1_src (z : TimeZone) (l : Spec.Layout) (hl : Spec.LayoutOK z l) (hv : l.versionByte = 0)
    (ht : Spec.TimesFit 32 z)
    (hn : ∀ t ∈ z.localTimeTypes, ∃ t', LocalTimeType.new t.utOffset t.isDst t.name = .ok t') :
    Src.parse_tz_file (Spec.encodeV1 z l) = TimeZone.new z.transitions z.localTimeTypes z.leapSeconds none := by
  rw [SrcEq.parse_tz_file_eq]; exact decode_encode_v1 z l hl hv ht hn

theorem accepted_v1_is_written_src (b : Bytes) (hb : ∀ x ∈ b, x < 256) (z : TimeZone) (h : Src.parse_tz_file b = .ok z)
    (hv : b.getD 4 0 = 0) :
    ∃ l : Spec.Layout, Spec.LayoutOK z l ∧ l.versionByte = 0 ∧ Spec.TimesFit 32 z ∧ z.extraRule = none ∧
      b = Spec.encodeV1 z l :=
  accepted_v1_is_written b hb z (SrcEq.parse_tz_file_eq b ▸ h) hv

/-- the footer decoder (`str::from_utf8`, the NL · text · NL framing repaired by the F4 fix, trimming, the ':' / NUL
    refusals, then the TZ-string parser) translated from the source equals the model's -/
theorem translated_footer_is_the_model (f : Bytes) (ext : Bool) : Src.parse_footer f ext = parseFooter f ext :=
  SrcEq.parse_footer_eq f ext

/-- the public entry point `TimeZone::from_tz_data` as the source has it is the decoder these theorems are about -/
theorem from_tz_data_src (b : Bytes) : Src.TimeZone.from_tz_data b = parseTzFile b :=
  SrcEq.tz_from_tz_data_eq b

end TzVerif.C08
