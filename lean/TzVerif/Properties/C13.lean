/-
C13  Zone constructor accepts exactly the well-formed zones, each violation with its own error.

`Spec.WFZone` is the property's list: at least one type; every index in range; strictly increasing
times; leap table empty or starting at a non-negative time with correction ±1 and continuing by ±1
steps at least 28 days − 1 s apart; the trailing rule prescribing exactly the last transition's type
(offset, flag, designation) at the last transition's instant.
The owned and the borrowed constructor are one function in the model (`TimeZone.checkInputs`, as in
the source, where both call `check_inputs`); the harness calls both on every input.
-/
import TzVerif.Model.TimeZone
import TzVerif.Spec.Zone
import TzVerif.Proofs.ZoneNew
import TzVerif.Proofs.SrcEqZone
import TzVerif.Proofs.SrcEqTzFileAux
import TzVerif.Proofs.SrcEqLttEqual
import TzVerif.Generated.StableC13   -- per run: the current translation (SrcNow) equals the baseline (Src) these theorems are about

namespace TzVerif.C13
open TzVerif.Model

theorem accepts_iff (z : TimeZone) (hr : Spec.LeapInRange z.leapSeconds) :
    z.checkInputs = .ok () ↔ Spec.WFZone z :=
  Proofs.checkInputs_ok_iff z hr

theorem new_iff (ts : List Transition) (ys : List LocalTimeType) (ls : List LeapSecond) (r : Option TransitionRule)
    (hr : Spec.LeapInRange ls) :
    (∃ z, TimeZone.new ts ys ls r = .ok z) ↔
      Spec.WFZone { transitions := ts, localTimeTypes := ys, leapSeconds := ls, extraRule := r } := by
  unfold TimeZone.new
  rw [← Proofs.checkInputs_ok_iff _ hr]
  simp only
  cases hc : (TimeZone.checkInputs { transitions := ts, localTimeTypes := ys, leapSeconds := ls, extraRule := r }) with
  | error e => simp
  | ok u => cases u; simp

/-- each refusal names the violated clause (the clauses checked before it hold) -/
theorem errors_specific (z : TimeZone) (hr : Spec.LeapInRange z.leapSeconds) (e : TzError)
    (h : z.checkInputs = .error e) : Proofs.Blame z e :=
  Proofs.checkInputs_error_blames z hr e h

/-- the saturating arithmetic of the leap-table test decides the mathematical conditions -/
theorem saturating_spacing (a b : Int) (ha : i64Min ≤ a ∧ a ≤ i64Max) (hb : i64Min ≤ b ∧ b ≤ i64Max) :
    satSubI64 a b ≥ 2419199 ↔ a - b ≥ 2419199 :=
  Proofs.satSub_ge_iff a b 2419199 ha hb (by decide)

theorem saturating_step (a b : Int) (ha : i32Min ≤ a ∧ a ≤ i32Max) (hb : i32Min ≤ b ∧ b ≤ i32Max) :
    satAbsI32 (satSubI32 a b) = 1 ↔ (a - b = 1 ∨ a - b = -1) :=
  Proofs.satAbs_satSub_eq_one_iff a b ha hb

/-- the rule clause compares offset, DST flag and designation -/
theorem rule_clause_compares_all (a b : LocalTimeType) : a.equal b = true ↔ a = b :=
  Proofs.equal_iff a b

/-- local time types refuse the most negative 32-bit offset and designations that are not 3–7
    characters of [A-Za-z0-9+-]; accepted values hold exactly what was given -/
theorem local_time_type_iff (off : Int) (dst : Bool) (name : Option (List Nat)) (t : LocalTimeType) :
    LocalTimeType.new off dst name = .ok t ↔
      (t = { utOffset := off, isDst := dst, name := name } ∧ off ≠ i32Min ∧
       (match name with
        | none => True
        | some n => 3 ≤ n.length ∧ n.length ≤ 7 ∧ ∀ b ∈ n, isDesignationChar b = true)) :=
  Proofs.lttNew_ok_iff off dst name t

theorem local_time_type_errors (off : Int) (dst : Bool) (name : Option (List Nat)) (e : LocalTimeTypeError)
    (h : LocalTimeType.new off dst name = .error e) :
    (e = .invalidUtcOffset ∧ off = i32Min) ∨
    (∃ n, name = some n ∧ off ≠ i32Min ∧
      ((e = .invalidTimeZoneDesignationLength ∧ ¬ (3 ≤ n.length ∧ n.length ≤ 7)) ∨
       (e = .invalidTimeZoneDesignationChar ∧ 3 ≤ n.length ∧ n.length ≤ 7 ∧ ∃ b ∈ n, isDesignationChar b = false))) :=
  Proofs.lttNew_errors off dst name e h

theorem designation_alphabet (b : Nat) :
    isDesignationChar b = true ↔
      ((48 ≤ b ∧ b ≤ 57) ∨ (65 ≤ b ∧ b ≤ 90) ∨ (97 ≤ b ∧ b ≤ 122) ∨ b = 43 ∨ b = 45) :=
  Proofs.isDesignationChar_iff b

/-- non-vacuity: a zone with two transitions, a leap table and a fixed rule is well-formed and accepted -/
example :
    let t0 : LocalTimeType := { utOffset := 0, isDst := false, name := some [85, 84, 67] }
    let z : TimeZone := { transitions := [⟨100, 0⟩, ⟨200, 0⟩], localTimeTypes := [t0],
                          leapSeconds := [⟨78796800, 1⟩, ⟨78796800 + 2419199, 2⟩], extraRule := some (.fixed t0) }
    z.checkInputs = .ok () := by decide +kernel

/-! ### The same about the source text
`TzVerif.Src.*` is the Rust source translated to Lean on every run (tools/rs2lean.py, DESIGN §13); the
equalities below tie every theorem of this file, which is about the model, to the code as it is now. -/

theorem translated_source_is_the_model :
    (∀ z : TimeZone, Proofs.SrcEq.CorrectionsI32 z.leapSeconds → Src.TimeZoneRef.check_inputs z = z.checkInputs) ∧
    (∀ ts tys ls r, Proofs.SrcEq.CorrectionsI32 ls → Src.TimeZoneRef.new ts tys ls r = TimeZone.new ts tys ls r) :=
  ⟨Proofs.SrcEq.check_inputs_eq, Proofs.SrcEq.zone_new_eq⟩

/-- `accepts_iff` about the translated `check_inputs` (corrections are `i32` values in the source) -/
theorem accepts_iff_src (z : TimeZone) (hr : Spec.LeapInRange z.leapSeconds) (hc : Proofs.SrcEq.CorrectionsI32 z.leapSeconds) :
    Src.TimeZoneRef.check_inputs z = .ok () ↔ Spec.WFZone z := by
  rw [Proofs.SrcEq.check_inputs_eq z hc]; exact accepts_iff z hr

/-- the translated constructor equals the model's for ALL arguments (no range hypothesis on the corrections: both
    sides refuse a first correction outside ±1 and saturate differences alike) -/
theorem translated_constructor_is_the_model :
    (∀ z : TimeZone, Src.TimeZoneRef.check_inputs z = z.checkInputs) ∧
    (∀ ts tys ls r, Src.TimeZoneRef.new ts tys ls r = TimeZone.new ts tys ls r) :=
  ⟨Proofs.SrcEq.check_inputs_eq', Proofs.SrcEq.zone_new_eq'⟩

theorem accepts_iff_src' (z : TimeZone) (hr : Spec.LeapInRange z.leapSeconds) :
    Src.TimeZoneRef.check_inputs z = .ok () ↔ Spec.WFZone z := by
  rw [Proofs.SrcEq.check_inputs_eq' z]; exact accepts_iff z hr

/-- the local-time-type clause about the source text: `TzAsciiStr::new` (the 8-byte length-prefixed buffer and its
    character loop), `LocalTimeType::new`, `with_ut_offset` and the two `equal` functions, translated on every run,
    are the model's constructor resp. comparison (through `nameOf`, which reads the designation back from the buffer).
    This is also what justifies the meaning the other translated functions give to `LocalTimeType::new` and `equal`. -/
theorem translated_local_time_type_is_the_model :
    (∀ input, (Src.TzAsciiStr.new input).map Proofs.SrcEq.nameOf = TzAsciiStr.new input) ∧
    (∀ off dst name, (Src.LocalTimeType.new off dst name).map Proofs.SrcEq.lttOf = LocalTimeType.new off dst name) ∧
    (∀ off, (Src.LocalTimeType.with_ut_offset off).map Proofs.SrcEq.lttOf = LocalTimeType.withUtOffset off) ∧
    (∀ o1 o2 d1 d2 n1 n2 x y, Src.LocalTimeType.new o1 d1 n1 = .ok x → Src.LocalTimeType.new o2 d2 n2 = .ok y →
        Src.LocalTimeType.equal x y = (Proofs.SrcEq.lttOf x).equal (Proofs.SrcEq.lttOf y)) :=
  ⟨Proofs.SrcEq.tz_ascii_str_new_eq, Proofs.SrcEq.ltt_new_eq, Proofs.SrcEq.ltt_with_ut_offset_eq,
   fun o1 o2 d1 d2 n1 n2 x y hx hy => Proofs.SrcEq.ltt_equal_eq o1 o2 d1 d2 n1 n2 x y hx hy⟩

end TzVerif.C13
