/-
C03  localtime (table): the type at an instant is that of the latest transition ≤ it.

The instant `u` is first moved to the scale the table is written in (`L`, the leap-second count; with
an empty leap table `L = u` — C12 proves that a transition recorded at `T` is reached exactly at the
UTC instant `T` denotes). `Spec.typeIndexAt` is "the latest transition at or before", written with a
filter, independent of the binary search.
-/
import TzVerif.Model.TimeZone
import TzVerif.Spec.Zone
import TzVerif.Proofs.Table
import TzVerif.Proofs.SrcEqZone
import TzVerif.Proofs.SrcEqOwned
import TzVerif.Generated.StableC03   -- per run: the current translation (SrcNow) equals the baseline (Src) these theorems are about

namespace TzVerif.C03
open TzVerif.Model

/-- the binary search is a correct search on strictly increasing data (and terminates: it is a total
    Lean function by well-founded recursion on `right - left`) -/
theorem binary_search_correct (l : List Int) (x : Int) (hs : Proofs.SortedLt l) :
    match binarySearch l x with
    | .found i => i < l.length ∧ l.getD i 0 = x
    | .notFound i => i ≤ l.length ∧ (∀ j, j < i → l.getD j 0 < x) ∧ (∀ j, i ≤ j → j < l.length → x < l.getD j 0) :=
  Proofs.binarySearch_spec l x hs

/-- Zone with a table: before the last transition the type is that of the latest transition at or
    before the instant (the zone's first type before the first transition); at or after the last
    transition, whatever the trailing rule prescribes, or the 'no local time type' error without rule.
    No bound on the table length. -/
theorem table_lookup (z : TimeZone) (hs : Spec.StrictlyIncreasing z.transitions) (u L : Int) (last : Transition)
    (hl : z.transitions.getLast? = some last) (hL : unixTimeToUnixLeapTime z.leapSeconds u = .ok L) :
    z.findLocalTimeType u =
      (if L ≥ last.unixLeapTime then
        (match z.extraRule with
         | some r => r.findLocalTimeType u
         | none => .error .noAvailableLocalTimeType)
       else .ok (z.localTimeTypes.getD (Spec.typeIndexAt z.transitions L) default)) :=
  Proofs.table_lookup z hs u L last hl hL

/-- Zone without table: the rule, or the single/first type. -/
theorem no_transitions (z : TimeZone) (u : Int) (h : z.transitions = []) :
    z.findLocalTimeType u =
      (match z.extraRule with
       | some r => r.findLocalTimeType u
       | none => .ok (z.localTimeTypes.getD 0 default)) :=
  Proofs.no_transitions z u h

/-- a failing scale conversion (overflow at the i64 ends) is the only other outcome -/
theorem conversion_error (z : TimeZone) (u : Int) (e : TzError) (last : Transition)
    (hl : z.transitions.getLast? = some last) (hL : unixTimeToUnixLeapTime z.leapSeconds u = .error e) :
    z.findLocalTimeType u = .error e :=
  Proofs.conversion_error z u e last hl hL

/-- The resulting local date-time keeps the instant and nanoseconds, carries the looked-up type, and
    its fields are the UTC calendar fields (C01) of instant + that type's offset. -/
theorem local_date_time (u ns : Int) (z : TimeZone) (d : DateTime) (h : DateTime.fromTimespec u ns z = .ok d) :
    d.unixTime = u ∧ d.nanoseconds = ns ∧ z.findLocalTimeType u = .ok d.localTimeType ∧
    UtcDateTime.fromTimespec (u + d.localTimeType.utOffset) ns =
      .ok { year := d.year, month := d.month, monthDay := d.monthDay, hour := d.hour, minute := d.minute,
            second := d.second, nanoseconds := d.nanoseconds } :=
  Proofs.fromTimespec_zone u ns z d h

/-- non-vacuity: a two-transition table, looked up between its transitions -/
example :
    let t0 : LocalTimeType := { utOffset := 0, isDst := false, name := none }
    let t1 : LocalTimeType := { utOffset := 3600, isDst := true, name := none }
    let z : TimeZone := { transitions := [⟨100, 1⟩, ⟨200, 0⟩], localTimeTypes := [t0, t1], leapSeconds := [], extraRule := none }
    z.findLocalTimeType 150 = .ok t1 ∧ z.findLocalTimeType 99 = .ok t0 ∧ z.findLocalTimeType 200 = .error .noAvailableLocalTimeType := by
  decide +kernel

/-! ### The same about the source text
`TzVerif.Src.*` is the Rust source translated to Lean on every run (tools/rs2lean.py, DESIGN §13); the
equalities below tie every theorem of this file, which is about the model, to the code as it is now. -/

theorem translated_source_is_the_model :
    (∀ (z : TimeZone) u, Src.TimeZoneRef.find_local_time_type z u = z.findLocalTimeType u) ∧
    (∀ (z : TimeZone) u, Src.TimeZoneRef.unix_time_to_unix_leap_time z u = unixTimeToUnixLeapTime z.leapSeconds u) ∧
    (∀ (l : List Transition) x, Proofs.SrcEq.bsOfExcept (Src.binary_search_transitions l x) = binarySearch (l.map (·.unixLeapTime)) x) ∧
    (∀ u ns (z : TimeZone), Src.DateTime.from_timespec u ns z = DateTime.fromTimespec u ns z) :=
  ⟨Proofs.SrcEq.find_local_time_type_eq, Proofs.SrcEq.unix_time_to_unix_leap_time_eq, Proofs.SrcEq.binary_search_transitions_eq,
   Proofs.SrcEq.dt_from_timespec_eq⟩

theorem no_transitions_src (z : TimeZone) (u : Int) (h : z.transitions = []) :
    Src.TimeZoneRef.find_local_time_type z u =
      (match z.extraRule with
       | some r => r.findLocalTimeType u
       | none => .ok (z.localTimeTypes.getD 0 default)) := by
  rw [Proofs.SrcEq.find_local_time_type_eq]; exact no_transitions z u h

theorem local_date_time_src (u ns : Int) (z : TimeZone) (d : DateTime) (h : Src.DateTime.from_timespec u ns z = .ok d) :
    d.unixTime = u ∧ d.nanoseconds = ns ∧ Src.TimeZoneRef.find_local_time_type z u = .ok d.localTimeType := by
  rw [Proofs.SrcEq.dt_from_timespec_eq] at h
  rw [Proofs.SrcEq.find_local_time_type_eq]
  exact ⟨(local_date_time u ns z d h).1, (local_date_time u ns z d h).2.1, (local_date_time u ns z d h).2.2.1⟩

/-- the owned zone (`TimeZone`, alloc) answers through its borrowed view: `as_ref` is the same zone, and
`TimeZone::find_local_time_type` is the lookup these theorems are about; `LocalTimeType::utc()` is the model's UTC type -/
theorem owned_zone_lookup_src (z : TimeZone) (u : Int) :
    Src.TimeZone.as_ref z = z ∧ Src.TimeZone.find_local_time_type z u = z.findLocalTimeType u ∧
    Proofs.SrcEq.lttOf Src.LocalTimeType.utc = LocalTimeType.utc :=
  ⟨Proofs.SrcEq.tz_as_ref_eq z, Proofs.SrcEq.tz_find_local_time_type_eq z u, Proofs.SrcEq.ltt_utc_eq⟩

end TzVerif.C03
