/-
C04  localtime (rule): a POSIX DST rule is evaluated correctly at every instant and year.

Spec (`Spec/Rule.lean`): a rule day is what the notation means (`Jn`: day n of a 365-day calendar, never
29 February; `n`: n days after 1 January; `Mm.w.d`: the w-th d-day of month m found by scanning the
month, the last one if there are fewer); `startInstant`/`endInstant` put the day at its time on the
standard / daylight clock; `IsDst` is membership in the union of the periods.

FULL STATEMENT (`C04_full` below, for every accepted interleaving rule) is FALSE of the code: finding
F1 (`counterexample`). What is proved is `evaluated_correctly` under the extra hypothesis `TieFree`
(the rule's order is strict in every year, or start-first); every IANA rule satisfies it.
-/
import TzVerif.Model.Rule
import TzVerif.Spec.Rule
import TzVerif.Proofs.RuleEval
import TzVerif.Proofs.IanaRules
import TzVerif.Proofs.SrcEqRule
import TzVerif.Generated.StableC04   -- per run: the current translation (SrcNow) equals the baseline (Src) these theorems are about

namespace TzVerif.C04
open TzVerif.Model TzVerif.Proofs

/-- all three day notations, every year: the code's date computation is the notation's meaning -/
theorem day_notations (d : RuleDay) (hv : ValidRuleDay d) (y t : Int) :
    d.unixTime y t = 86400 * Spec.ruleDayNumber d y + t :=
  ruleDay_unixTime_eq d hv y t

/-- an accepted rule holds exactly the given parts, within the constructor's limits -/
theorem accepted_shape (std dst : LocalTimeType) (ds : RuleDay) (st : Int) (de : RuleDay) (et : Int) (a : AlternateTime)
    (hds : ValidRuleDay ds) (hde : ValidRuleDay de)
    (h : AlternateTime.new std dst ds st de et = .ok a) :
    a = { std := std, dst := dst, dstStart := ds, dstStartTime := st, dstEnd := de, dstEndTime := et } ∧ RuleShape a :=
  new_ok_shape std dst ds st de et a hds hde h

/-- PARTIAL (hypothesis `TieFree`): on daylight time exactly inside a period [start(y), following end),
    start inclusive, end exclusive; the reported type is exactly the matching half of the rule. -/
theorem evaluated_correctly_partial (a : AlternateTime) (hs : RuleShape a) (hi : Spec.Interleaves a) (ht : Spec.TieFree a)
    (u : Int) (t : LocalTimeType) (h : a.findLocalTimeType u = .ok t) :
    (Spec.IsDst a u ∧ t = a.dst) ∨ (¬ Spec.IsDst a u ∧ t = a.std) :=
  alternate_correct a hs hi ht u t h

/-- the full-strength statement of the property (no `TieFree`): kept visible; refuted by `counterexample` -/
def C04_full : Prop :=
  ∀ (a : AlternateTime), RuleShape a → Spec.Interleaves a →
    ∀ (u : Int) (t : LocalTimeType), a.findLocalTimeType u = .ok t →
      (Spec.IsDst a u ∧ t = a.dst) ∨ (¬ Spec.IsDst a u ∧ t = a.std)

/-- the answer changes only at start/end instants — never at a calendar-year boundary -/
theorem changes_only_at_instants (a : AlternateTime) (hs : RuleShape a) (hi : Spec.Interleaves a) (ht : Spec.TieFree a)
    (u u' : Int) (hle : u ≤ u') (t t' : LocalTimeType)
    (h : a.findLocalTimeType u = .ok t) (h' : a.findLocalTimeType u' = .ok t')
    (hsi : ∀ y, ¬ (u < Spec.startInstant a y ∧ Spec.startInstant a y ≤ u'))
    (hei : ∀ y, ¬ (u < Spec.endInstant a y ∧ Spec.endInstant a y ≤ u')) :
    t = t' := by
  have hc := isDst_const_between a u u' hle hsi hei
  rcases alternate_correct a hs hi ht u t h with ⟨h1, h2⟩ | ⟨h1, h2⟩ <;>
  rcases alternate_correct a hs hi ht u' t' h' with ⟨h3, h4⟩ | ⟨h3, h4⟩
  · rw [h2, h4]
  · exact absurd (hc.mp h1) h3
  · exact absurd (hc.mpr h3) h1
  · rw [h2, h4]

/-- outside the year guard the evaluation is refused with the out-of-range error -/
theorem year_guard (a : AlternateTime) (u : Int) :
    (∃ t, a.findLocalTimeType u = .ok t) ↔
      (∃ c, UtcDateTime.fromTimespec u 0 = .ok c ∧ i32Min + 2 ≤ c.year ∧ c.year ≤ i32Max - 2) :=
  alternate_guard a u

theorem refusal_is_out_of_range (a : AlternateTime) (u : Int) (e : TzError) (h : a.findLocalTimeType u = .error e) :
    e = .outOfRange :=
  alternate_error a u e h

/-- F1: `AAA0BBB,M3.1.0/0,J60/1` is accepted; at 2026-02-15T00:00Z the code answers standard time,
    although start(2025) ≤ t < end(2027) with the rule in end-before-start order (tie in 2026). -/
theorem counterexample :
    let std : LocalTimeType := { utOffset := 0, isDst := false, name := some [65, 65, 65] }
    let dst : LocalTimeType := { utOffset := 3600, isDst := true, name := some [66, 66, 66] }
    let a : AlternateTime := { std, dst, dstStart := .mwd 3 1 0, dstStartTime := 0, dstEnd := .julian1 60, dstEndTime := 3600 }
    AlternateTime.new std dst (.mwd 3 1 0) 0 (.julian1 60) 3600 = .ok a ∧
    a.findLocalTimeType 1771113600 = .ok std ∧
    Spec.startInstant a 2025 ≤ 1771113600 ∧ 1771113600 < Spec.endInstant a 2026 ∧
    Spec.endInstant a 2025 < Spec.startInstant a 2025 ∧ Spec.endInstant a 2026 = Spec.startInstant a 2026 := by
  decide +kernel

/-- hence the full-strength statement is FALSE of the code (this is finding F1, as a theorem):
    the witness rule is accepted, has the constructor's shape, its instants interleave in every year
    (decided on the 28-year cycle, lifted by `interleaves_iff_B`), and at 2026-02-15T00:00Z the code
    answers standard time inside the period [start(2025), end(2026)) of a reverse-order rule. -/
theorem full_statement_is_false : ¬ C04_full := by
  intro h
  let std : LocalTimeType := { utOffset := 0, isDst := false, name := some [65, 65, 65] }
  let dst : LocalTimeType := { utOffset := 3600, isDst := true, name := some [66, 66, 66] }
  let a : AlternateTime := { std, dst, dstStart := .mwd 3 1 0, dstStartTime := 0, dstEnd := .julian1 60, dstEndTime := 3600 }
  have hs : RuleShape a := (ruleShapeB_iff a).mp (by decide)
  have hi : Spec.Interleaves a := (interleaves_iff_B a hs).mpr (by decide +kernel)
  have hlook : a.findLocalTimeType 1771113600 = .ok std := by decide +kernel
  have hnsf : ¬ Spec.StartFirst a := by
    intro hsf
    have := hsf 2025
    revert this
    decide +kernel
  have hdst : Spec.IsDst a 1771113600 := by
    refine Or.inr ⟨hnsf, 2025, ?_, ?_⟩ <;> decide +kernel
  rcases h a hs hi 1771113600 std hlook with ⟨_, h2⟩ | ⟨h1, _⟩
  · exact absurd h2 (by decide)
  · exact h1 hdst

/-- non-vacuity: the EU rule (M3.5.0/1 … M10.5.0/1 UTC) at midsummer 2024 is on daylight time -/
example :
    let std : LocalTimeType := { utOffset := 3600, isDst := false, name := some [67, 69, 84] }
    let dst : LocalTimeType := { utOffset := 7200, isDst := true, name := some [67, 69, 83, 84] }
    let a : AlternateTime := { std, dst, dstStart := .mwd 3 5 0, dstStartTime := 7200, dstEnd := .mwd 10 5 0, dstEndTime := 10800 }
    a.findLocalTimeType 1718971200 = .ok dst ∧ Spec.startInstant a 2024 ≤ 1718971200 ∧ 1718971200 < Spec.endInstant a 2024 := by
  decide +kernel

/-! ### The same about the source text
`TzVerif.Src.*` is the Rust source translated to Lean on every run (tools/rs2lean.py, DESIGN §13); the
equalities below tie every theorem of this file, which is about the model, to the code as it is now. -/

theorem translated_source_is_the_model :
    (∀ (a : AlternateTime) u, Src.AlternateTime.find_local_time_type a u = a.findLocalTimeType u) ∧
    (∀ (r : TransitionRule) u, Src.TransitionRule.find_local_time_type r u = r.findLocalTimeType u) ∧
    (∀ (d : RuleDay) y t, Src.RuleDay.unix_time d y t = d.unixTime y t) ∧
    (∀ (d : RuleDay) y, Src.RuleDay.transition_date d y = d.transitionDate y) :=
  ⟨SrcEq.alternate_find_local_time_type_eq, SrcEq.transition_rule_find_local_time_type_eq, SrcEq.rule_day_unix_time_eq,
   SrcEq.rule_day_transition_date_eq⟩

theorem day_notations_src (d : RuleDay) (hv : ValidRuleDay d) (y t : Int) :
    Src.RuleDay.unix_time d y t = 86400 * Spec.ruleDayNumber d y + t := by
  rw [SrcEq.rule_day_unix_time_eq]; exact day_notations d hv y t

theorem evaluated_correctly_partial_src (a : AlternateTime) (hs : RuleShape a) (hi : Spec.Interleaves a) (ht : Spec.TieFree a)
    (u : Int) (t : LocalTimeType) (h : Src.AlternateTime.find_local_time_type a u = .ok t) :
    (Spec.IsDst a u ∧ t = a.dst) ∨ (¬ Spec.IsDst a u ∧ t = a.std) :=
  evaluated_correctly_partial a hs hi ht u t (SrcEq.alternate_find_local_time_type_eq a u ▸ h)

end TzVerif.C04
