/-
C10  End-to-end agreement with glibc and CPython zoneinfo on the real IANA database.

Lean cannot state anything about glibc or CPython: they are black-box oracles in a four-way
differential (`tools/special_c10.py`). What Lean contributes is that the tz-rs side of that
differential — and the executable semantics `Spec.zoneExpect` with which the driver judges every
`lookup` / `find` answer of the implementation — is exactly the proved semantics:
 * decoding: C08 (`parseTzFile (encode …) = TimeZone.new …`), C09 (footer rule);
 * forward lookup: C03 (table), C12 (leap scale), C04 (rule), composed here into
   `lookup_is_the_executable_spec`;
 * search: C05 / C06, restated against the executable spec in `search_results_in_spec`.
-/
import TzVerif.Model.Find
import TzVerif.Spec.Lookup
import TzVerif.Proofs.SpecLookup
import TzVerif.Proofs.IanaRules
import TzVerif.Proofs.SrcEqTzFile
import TzVerif.Proofs.SrcEqFind
import TzVerif.Generated.StableC10   -- per run: the current translation (SrcNow) equals the baseline (Src) these theorems are about

namespace TzVerif.C10
open TzVerif.Model TzVerif.Proofs

/-- For every well-formed zone (any table, leap table, no rule / fixed rule / DST rule under C04's
    hypotheses) and every instant away from the ends of i64, the library's answer is the answer of the
    executable spec the oracles use. -/
theorem lookup_is_the_executable_spec (z : TimeZone) (hz : ZoneOK z) (hl : Spec.LeapInRange z.leapSeconds)
    (hr : ZoneRuleOK z) (u : Int) (hu : Inner u) :
    z.findLocalTimeType u =
      (match Spec.zoneExpect z u with
       | .type t => .ok t
       | .noAvail => .error .noAvailableLocalTimeType
       | .outOfRange => .error .outOfRange) :=
  zoneExpect_eq z hz hl hr u hu

/-- the pieces: leap scale, civil year, DST window -/
theorem to_count_is_spec (ls : List LeapSecond) (hwf : Spec.LeapWF ls) (hr : Spec.LeapInRange ls) (u k : Int)
    (h : unixTimeToUnixLeapTime ls u = .ok k) : Spec.toCountSpec ls u = k :=
  toCountSpec_eq ls hwf hr u k h

theorem year_of_day_is_civil_year (n : Int) :
    Spec.daysBeforeYear (Spec.yearOfDay n) ≤ n ∧ n < Spec.daysBeforeYear (Spec.yearOfDay n + 1) :=
  yearOfDay_spec n

theorem dst_window_loses_nothing (a : AlternateTime) (ha : RuleOK a) (u : Int) :
    Spec.isDstB a u = true ↔ Spec.IsDst a u :=
  isDstB_iff a ha u

/-- every valid search result of a zone without DST rule is an instant at which the executable spec
    says the zone shows that type (composition of C05 with the theorem above) -/
theorem search_results_in_spec (y mo d h mi s ns : Int) (z : TimeZone) (rs : List Found)
    (hz : ZoneOK z) (hl : Spec.LeapInRange z.leapSeconds) (hr : NoDstRule z)
    (hf : findDateTime y mo d h mi s ns z = .ok rs) (x : DateTime) (hx : Found.normal x ∈ rs) (hu : Inner x.unixTime) :
    Spec.zoneExpect z x.unixTime = .type x.localTimeType := by
  have h1 := (search_sound y mo d h mi s ns z rs hz hr hf x hx).1
  have hr' : ZoneRuleOK z := by
    unfold ZoneRuleOK; unfold NoDstRule at hr
    split <;> simp_all
  have h2 := zoneExpect_eq z hz hl hr' x.unixTime hu
  rw [h1] at h2
  cases he : Spec.zoneExpect z x.unixTime with
  | type t => rw [he] at h2; simp at h2; rw [h2]
  | noAvail => rw [he] at h2; simp at h2
  | outOfRange => rw [he] at h2; simp at h2

/-- Every distinct DST rule found in the footers of the vendored IANA snapshot (`Generated/IanaRules.lean`,
    regenerated each run and cross-checked against the rules the implementation decodes) satisfies the
    hypotheses of the partial theorems C04 / C05 / C06 — so those theorems apply to every IANA zone — … -/
theorem iana_rules_satisfy_hypotheses : ∀ a ∈ Gen.ianaRules, RuleOK a :=
  iana_rules_ok

/-- … and is accepted by the rule constructor as is. -/
theorem iana_rules_are_accepted :
    Gen.ianaRules.all (fun a => (AlternateTime.new a.std a.dst a.dstStart a.dstStartTime a.dstEnd a.dstEndTime) == .ok a) = true :=
  iana_rules_accepted

/-- what runs on the IANA files — the decoder, the forward lookup and the search — is, translated from the source on
    every run (DESIGN §13), equal to the model functions the four-way differential drives -/
theorem translated_pipeline_is_the_model :
    (∀ b, Src.parse_tz_file b = TzVerif.Model.parseTzFile b) ∧
    (∀ (z : TzVerif.Model.TimeZone) u, Src.TimeZoneRef.find_local_time_type z u = z.findLocalTimeType u) ∧
    (∀ y mo d h mi s ns (z : TzVerif.Model.TimeZone), Src.find_date_time [] y mo d h mi s ns z = TzVerif.Model.findDateTime y mo d h mi s ns z) :=
  ⟨TzVerif.Proofs.SrcEq.parse_tz_file_eq, TzVerif.Proofs.SrcEq.find_local_time_type_eq, TzVerif.Proofs.SrcEq.find_date_time_eq⟩

end TzVerif.C10
