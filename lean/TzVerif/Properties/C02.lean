/-
C02  timegm: calendar -> Unix time is the exact monotone inverse; bad dates refused.
-/
import TzVerif.Model.DateTime
import TzVerif.Spec.Calendar
import TzVerif.Proofs.Calendar
import TzVerif.Proofs.SrcEqCal
import TzVerif.Generated.StableC02   -- per run: the current translation (SrcNow) equals the baseline (Src) these theorems are about

namespace TzVerif.C02
open TzVerif.Model TzVerif.Gen

/-- The day count of the code (both branches of its 1970 split) is the spec's day number, for every
    year, every month 1..12 and every day value (so also 32 December = 1 January). -/
theorem days_correct (y m d : Int) (hm : 1 ≤ m ∧ m ≤ 12) :
    daysSinceUnixEpoch y m d = Spec.dayNumber y m d :=
  Proofs.daysSinceUnixEpoch_eq y m d hm

/-- What the constructor must answer, clause by clause in the order the errors are documented:
    the excluded last leap second, then month, day 1..31, hour, minute, second, nanoseconds,
    and finally the day against the real length of that month. -/
def expected (y mo d h mi s ns : Int) : Except TzError UtcDateTime :=
  if y = i32Max ∧ mo = 12 ∧ d = 31 ∧ h = 23 ∧ mi = 59 ∧ s = 60 then .error .outOfRange
  else if ¬ (1 ≤ mo ∧ mo ≤ 12) then .error (.dateTime .invalidMonth)
  else if ¬ (1 ≤ d ∧ d ≤ 31) then .error (.dateTime .invalidMonthDay)
  else if h > 23 then .error (.dateTime .invalidHour)
  else if mi > 59 then .error (.dateTime .invalidMinute)
  else if s > 60 then .error (.dateTime .invalidSecond)
  else if ns ≥ 1000000000 then .error (.dateTime .invalidNanoseconds)
  else if d > Spec.monthLen y mo then .error (.dateTime .invalidMonthDay)
  else .ok { year := y, month := mo, monthDay := d, hour := h, minute := mi, second := s, nanoseconds := ns }

theorem new_correct (y mo d h mi s ns : Int) :
    UtcDateTime.new y mo d h mi s ns = expected y mo d h mi s ns :=
  Proofs.utcNew_eq_expected y mo d h mi s ns

/-- Accepted exactly for real dates and times (second 60 allowed), the one excluded instant apart.
    (The unsigned Rust argument types are the hypotheses `0 ≤ …`.) -/
theorem new_accepts_iff (y mo d h mi s ns : Int) (hh : 0 ≤ h) (hmi : 0 ≤ mi) (hs : 0 ≤ s) :
    (∃ c, UtcDateTime.new y mo d h mi s ns = .ok c) ↔
      (Spec.ValidDate y mo d ∧ Spec.ValidTime h mi s ∧ ns < 1000000000 ∧
       ¬ (y = i32Max ∧ mo = 12 ∧ d = 31 ∧ h = 23 ∧ mi = 59 ∧ s = 60)) :=
  Proofs.utcNew_accepts_iff y mo d h mi s ns hh hmi hs

/-- The Unix time is the true count of non-leap seconds … -/
theorem unix_time_correct (y m d h mi s : Int) (hm : 1 ≤ m ∧ m ≤ 12) :
    unixTime y m d h mi s = Spec.seconds y m d h mi s :=
  Proofs.unixTime_eq_seconds y m d h mi s hm

/-- … with second 60 equal to second 0 of the next minute (and of the next day at 23:59:60). -/
theorem leap_second (y m d h mi : Int) (hm : 1 ≤ m ∧ m ≤ 12) :
    unixTime y m d h mi 60 = unixTime y m d h (mi + 1) 0 ∧
    unixTime y m d 23 59 60 = 86400 * (Spec.dayNumber y m d + 1) :=
  Proofs.unixTime_leap_second y m d h mi hm

/-- calendar -> Unix -> calendar is the identity for seconds < 60 -/
theorem roundtrip_fields (y m d h mi s ns : Int) (hy : i32Min ≤ y ∧ y ≤ i32Max)
    (hd : Spec.ValidDate y m d) (ht : 0 ≤ h ∧ h ≤ 23 ∧ 0 ≤ mi ∧ mi ≤ 59 ∧ 0 ≤ s ∧ s ≤ 59) :
    UtcDateTime.fromTimespec (unixTime y m d h mi s) ns =
      .ok { year := y, month := m, monthDay := d, hour := h, minute := mi, second := s, nanoseconds := ns } :=
  Proofs.fromTimespec_unixTime y m d h mi s ns hy hd ht

/-- Unix -> calendar -> Unix is the identity -/
theorem roundtrip_time (t ns : Int) (c : UtcDateTime) (h : UtcDateTime.fromTimespec t ns = .ok c) :
    c.unixTime = t :=
  Proofs.unixTime_fromTimespec t ns c h

/-- among valid date-times with seconds < 60, later in the calendar ⇔ strictly larger Unix time -/
theorem monotone (y m d h mi s y' m' d' h' mi' s' : Int)
    (hd : Spec.ValidDate y m d) (hd' : Spec.ValidDate y' m' d')
    (ht : 0 ≤ h ∧ h ≤ 23 ∧ 0 ≤ mi ∧ mi ≤ 59 ∧ 0 ≤ s ∧ s ≤ 59)
    (ht' : 0 ≤ h' ∧ h' ≤ 23 ∧ 0 ≤ mi' ∧ mi' ≤ 59 ∧ 0 ≤ s' ∧ s' ≤ 59) :
    Spec.lexLt [y, m, d, h, mi, s] [y', m', d', h', mi', s'] ↔
      unixTime y m d h mi s < unixTime y' m' d' h' mi' s' :=
  Proofs.unixTime_lex_iff y m d h mi s y' m' d' h' mi' s' hd hd' ht ht'

/-- non-vacuity: a leap day is accepted, 30 February is refused with the day error -/
example : (UtcDateTime.new 2024 2 29 23 59 60 0).isOk = true ∧
    UtcDateTime.new 2023 2 29 0 0 0 0 = .error (.dateTime .invalidMonthDay) := by decide

/-! ### The same about the source text
`TzVerif.Src.*` is the Rust source translated to Lean on every run (tools/rs2lean.py, DESIGN §13); the
equalities below tie every theorem of this file, which is about the model, to the code as it is now. -/

theorem translated_source_is_the_model :
    (∀ y mo d h mi s ns, Src.UtcDateTime.new y mo d h mi s ns = UtcDateTime.new y mo d h mi s ns) ∧
    (∀ y mo d h mi s ns, Src.check_date_time_inputs y mo d h mi s ns = checkDateTimeInputs y mo d h mi s ns) ∧
    (∀ y m d, Src.days_since_unix_epoch y m d = daysSinceUnixEpoch y m d) ∧
    (∀ y mo d h mi s, Src.unix_time y mo d h mi s = unixTime y mo d h mi s) ∧
    (∀ c : UtcDateTime, Src.UtcDateTime.unix_time c = c.unixTime) ∧
    (∀ t ns, Src.UtcDateTime.from_timespec t ns = UtcDateTime.fromTimespec t ns) :=
  ⟨Proofs.SrcEq.utc_new_eq, Proofs.SrcEq.check_date_time_inputs_eq, Proofs.SrcEq.days_since_unix_epoch_eq,
   Proofs.SrcEq.unix_time_eq, Proofs.SrcEq.utc_unix_time_eq, Proofs.SrcEq.utc_from_timespec_eq⟩

theorem days_correct_src (y m d : Int) (hm : 1 ≤ m ∧ m ≤ 12) : Src.days_since_unix_epoch y m d = Spec.dayNumber y m d := by
  rw [Proofs.SrcEq.days_since_unix_epoch_eq]; exact days_correct y m d hm

theorem new_correct_src (y mo d h mi s ns : Int) : Src.UtcDateTime.new y mo d h mi s ns = expected y mo d h mi s ns := by
  rw [Proofs.SrcEq.utc_new_eq]; exact new_correct y mo d h mi s ns

theorem unix_time_correct_src (y m d h mi s : Int) (hm : 1 ≤ m ∧ m ≤ 12) : Src.unix_time y m d h mi s = Spec.seconds y m d h mi s := by
  rw [Proofs.SrcEq.unix_time_eq]; exact unix_time_correct y m d h mi s hm

end TzVerif.C02
