/-
C18  Text rendering is ISO-8601-like, unambiguous, and denotes the same instant/offset.

`formatDateTime` models `format_date_time` (`core::fmt` padding modelled by `pad`/`showInt`, tied to
the code by the `fmt` correspondence family). `Spec.readBack` is an independent strict reader: it
accepts only the shape the property describes, so `readBack (render x) = some x` is both the round
trip and the shape claim ('Z' exactly for offset 0, '+HH:MM'/'-HH:MM' with at least two hour digits
otherwise, ':SS' only when the offset is not a whole number of minutes).
-/
import TzVerif.Model.DateTime
import TzVerif.Spec.Text
import TzVerif.Proofs.Text
import TzVerif.Proofs.SrcEqFmt
import TzVerif.Generated.StableC18   -- per run: the current translation (SrcNow) equals the baseline (Src) these theorems are about

namespace TzVerif.C18
open TzVerif.Model

theorem read_back (y mo d h mi s ns off : Int)
    (hy : i32Min ≤ y ∧ y ≤ i32Max) (hmo : 0 ≤ mo ∧ mo ≤ 99) (hd : 0 ≤ d ∧ d ≤ 99) (hh : 0 ≤ h ∧ h ≤ 99)
    (hmi : 0 ≤ mi ∧ mi ≤ 99) (hs : 0 ≤ s ∧ s ≤ 99) (hns : 0 ≤ ns ∧ ns < 1000000000)
    (hoff : i32Min < off ∧ off ≤ i32Max) :
    Spec.readBack (formatDateTime y mo d h mi s ns off) =
      some { year := y, month := mo, day := d, hour := h, minute := mi, second := s, nanoseconds := ns, offset := off } :=
  Proofs.readBack_format y mo d h mi s ns off hy hmo hd hh hmi hs hns hoff

/-- 'Z' exactly when the UTC offset is zero -/
theorem z_iff_zero_offset (y mo d h mi s ns off : Int) :
    (formatDateTime y mo d h mi s ns off).getLast? = some 'Z' ↔ off = 0 :=
  Proofs.format_ends_with_Z_iff y mo d h mi s ns off

/-- fixed-width fields: the year digits are followed by exactly 25 characters and 'Z' -/
theorem fixed_width (y mo d h mi s ns : Int)
    (hmo : 0 ≤ mo ∧ mo ≤ 99) (hd : 0 ≤ d ∧ d ≤ 99) (hh : 0 ≤ h ∧ h ≤ 99)
    (hmi : 0 ≤ mi ∧ mi ≤ 99) (hs : 0 ≤ s ∧ s ≤ 99) (hns : 0 ≤ ns ∧ ns < 1000000000) :
    (formatDateTime y mo d h mi s ns 0).length = (showInt y).length + 26 :=
  Proofs.format_length y mo d h mi s ns hmo hd hh hmi hs hns

/-- the reader is strict: an offset text denoting zero, a ":00" seconds part, a padded year are refused -/
example : Spec.readBack "2000-01-02T03:04:05.000000006+00:00".toList = none ∧
    Spec.readBack "2000-01-02T03:04:05.000000006+01:00:00".toList = none ∧
    Spec.readBack "02000-01-02T03:04:05.000000006Z".toList = none ∧
    Spec.readBack "2000-1-02T03:04:05.000000006Z".toList = none := by decide +kernel

/-- non-vacuity: an offset of more than 99 hours with seconds, negative year -/
example : String.ofList (formatDateTime (-44) 3 15 12 0 60 1 (-360001)) = "-44-03-15T12:00:60.000000001-100:00:01" := by
  decide +kernel

/-! ### The same about the source text
`TzVerif.Src.format_date_time` is src/datetime/mod.rs `format_date_time` translated to Lean on every run
(tools/rs2lean.py, DESIGN §13); `write!` appends to the formatter with the modelled `core::fmt` padding. -/

theorem translated_source_is_the_model (y mo d h mi s ns off : Int) :
    Src.format_date_time [] y mo d h mi s ns off = .ok (formatDateTime y mo d h mi s ns off) :=
  Proofs.SrcEq.format_date_time_eq y mo d h mi s ns off

/-- `read_back` about the translated formatter: what the source writes is read back to exactly the value -/
theorem read_back_src (y mo d h mi s ns off : Int) (text : List Char)
    (hy : i32Min ≤ y ∧ y ≤ i32Max) (hmo : 0 ≤ mo ∧ mo ≤ 99) (hd : 0 ≤ d ∧ d ≤ 99) (hh : 0 ≤ h ∧ h ≤ 99)
    (hmi : 0 ≤ mi ∧ mi ≤ 99) (hs : 0 ≤ s ∧ s ≤ 99) (hns : 0 ≤ ns ∧ ns < 1000000000)
    (hoff : i32Min < off ∧ off ≤ i32Max)
    (hw : Src.format_date_time [] y mo d h mi s ns off = .ok text) :
    Spec.readBack text =
      some { year := y, month := mo, day := d, hour := h, minute := mi, second := s, nanoseconds := ns, offset := off } := by
  rw [Proofs.SrcEq.format_date_time_eq] at hw
  injection hw with hw
  subst hw
  exact read_back y mo d h mi s ns off hy hmo hd hh hmi hs hns hoff

end TzVerif.C18
