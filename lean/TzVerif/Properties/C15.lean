/-
C15  Thread safety by construction: no global or interior state.

No theorem can quantify over Rust schedules. What is logic is stated here:
 (a) the whole-source inventory regenerated from /repo/src on every run (`Generated/Inventory.lean`:
     occurrences, in non-test code with comments and literals stripped, of `static mut`, `thread_local!`,
     `unsafe`, Cell/RefCell/UnsafeCell/OnceCell, Atomic*, Mutex/RwLock/Once/Lazy*, Rc, raw pointers,
     `env`, `static` items, PhantomData / negative impls, randomised hashers, current-directory calls) is
     EMPTY, every string literal that is a file-system path is absolute (a relative one is resolved against
     the process' current directory, which is process-global mutable state), and the ambient calls are exactly the
     clock read in `utils/system_time.rs` and `std::fs` in the default reader of `timezone/mod.rs`;
 (b) the model of every operation is a pure function: the driver's state is only the "current zone" of
     the line protocol, so any interleaving of calls yields, per call, the sequential answer — its
     content is the correspondence of the 16-thread runner with the sequential run.
rustc remains the authority for Send + Sync (`assert_send_sync::<T>()` for every public type in the
harness build).
-/
import TzVerif.Generated.Inventory
import TzVerif.Generated.StableC15   -- per run: the current translation (SrcNow) equals the baseline (Src) these theorems are about

namespace TzVerif.C15
open TzVerif.Gen

/-- allowed ambient calls: (file id, kind id) — 17 = src/utils/system_time.rs (1 SystemTime::now,
    5 UNIX_EPOCH), 13 = src/timezone/mod.rs (2 std::fs, the default reader) -/
def allowedAmbient : List (Nat × Nat) := [(17, 1), (17, 5), (13, 2)]

/-- no global mutable state, no interior mutability, no unsafe, no environment access anywhere -/
theorem no_forbidden_construct : inventoryForbidden = [] := by decide

/-- the only ambient inputs are the system clock and the injectable file reader's default -/
theorem ambient_calls_are_the_two_documented_ones : ∀ a ∈ inventoryAmbient, a ∈ allowedAmbient := by decide

/-- no path literal is relative to the current directory -/
theorem path_literals_are_absolute : ∀ p ∈ inventoryPathLiterals, p.2.2 = 1 := by decide

/-- the scan saw every source file of the crate (17 files; a new file must be looked at) -/
theorem all_files_scanned : inventoryFiles = 17 := by decide

end TzVerif.C15
