/-
C20  TZ value resolution follows tzset(3): file first, directory order, colon prefix.

`resolveTz dirs fs tz` models `TimeZoneSettings::parse_posix_tz` with the injectable reader `fs`
(`none` = unreadable); its first component is the exact sequence of paths requested from the reader.
-/
import TzVerif.Model.TzFile
import TzVerif.Proofs.SrcEqTzString
import TzVerif.Proofs.SrcEqSettings
import TzVerif.Generated.StableC20   -- per run: the current translation (SrcNow) equals the baseline (Src) these theorems are about

namespace TzVerif.C20
open TzVerif.Model

/-- candidate paths of a relative name, in directory order -/
def candidates (dirs : List Bytes) (name : Bytes) : List Bytes := dirs.map (fun d => d ++ [47] ++ name)

/-- prefix of the candidates up to and including the first readable one (all of them if none is) -/
def upToFirstReadable (fs : Bytes → Option Bytes) : List Bytes → List Bytes
  | [] => []
  | p :: ps => if (fs p).isSome then [p] else p :: upToFirstReadable fs ps

/-- content of the first readable candidate -/
def firstReadable (fs : Bytes → Option Bytes) : List Bytes → Option Bytes
  | [] => none
  | p :: ps => match fs p with
    | some b => some b
    | none => firstReadable fs ps

theorem go_spec (fs : Bytes → Option Bytes) (tz : Bytes) (dirs : List Bytes) (acc : List Bytes) :
    readTzFile.go fs tz dirs acc =
      (acc ++ upToFirstReadable fs (candidates dirs tz), firstReadable fs (candidates dirs tz)) := by
  induction dirs generalizing acc with
  | nil => simp [readTzFile.go, candidates, upToFirstReadable, firstReadable]
  | cons d ds ih =>
    simp only [readTzFile.go, candidates, List.map_cons, upToFirstReadable, firstReadable]
    cases h : fs (d ++ [47] ++ tz) with
    | some b => simp
    | none =>
      rw [ih]
      simp [candidates]

/-- A relative name is tried under each configured directory in order; the first readable file wins
    and nothing after it is opened. -/
theorem relative_lookup (dirs : List Bytes) (fs : Bytes → Option Bytes) (name : Bytes) (h : name.head? ≠ some 47) :
    readTzFile dirs fs name = (upToFirstReadable fs (candidates dirs name), firstReadable fs (candidates dirs name)) := by
  unfold readTzFile
  have : (name.head? == some 47) = false := by
    cases name with
    | nil => rfl
    | cons b bs => simp at h ⊢; exact h
  simp only [this]
  rw [go_spec]
  simp

/-- An absolute path is read as is (one request, that path). -/
theorem absolute_lookup (dirs : List Bytes) (fs : Bytes → Option Bytes) (rest : Bytes) :
    readTzFile dirs fs (47 :: rest) = ([47 :: rest], fs (47 :: rest)) := by
  simp [readTzFile]

/-- An empty value is refused and opens nothing. -/
theorem empty_refused (dirs : List Bytes) (fs : Bytes → Option Bytes) :
    resolveTz dirs fs [] = ([], .error (.tz (.tzString .empty))) := by
  simp [resolveTz]

/-- The literal `localtime` reads /etc/localtime and nothing else; unreadable is an I/O error; a file
    that was read is decoded and a decoding error is final. -/
theorem localtime_value (dirs : List Bytes) (fs : Bytes → Option Bytes) :
    resolveTz dirs fs localtimeBytes =
      ([etcLocaltimeBytes],
       match fs etcLocaltimeBytes with
       | none => .error .io
       | some b => liftTz (parseTzFile b)) := by
  unfold resolveTz
  have h1 : localtimeBytes.isEmpty = false := by decide
  simp only [h1]
  cases fs etcLocaltimeBytes <;> simp

/-- A leading ':' forces a file lookup of the remainder with NO fallback to a description:
    unreadable is an I/O error. -/
theorem colon_value (dirs : List Bytes) (fs : Bytes → Option Bytes) (rest : Bytes) :
    resolveTz dirs fs (58 :: rest) =
      ((readTzFile dirs fs rest).1,
       match (readTzFile dirs fs rest).2 with
       | none => .error .io
       | some b => liftTz (parseTzFile b)) := by
  unfold resolveTz
  have h2 : ((58 :: rest) = localtimeBytes) = False := by
    simp [localtimeBytes]
  simp only [List.isEmpty_cons, h2]
  cases h : readTzFile dirs fs rest with
  | mk paths r => cases r <;> simp

/-- Any other value: file lookup first; a file that was read is decoded (decoding error final, no
    fallback); only if NO file could be read is the value, stripped of surrounding ASCII whitespace,
    decoded as a POSIX description without extensions, giving a rule-only zone. -/
theorem plain_value (dirs : List Bytes) (fs : Bytes → Option Bytes) (tz : Bytes)
    (h0 : tz ≠ []) (h1 : tz ≠ localtimeBytes) (h2 : tz.head? ≠ some 58) :
    resolveTz dirs fs tz =
      ((readTzFile dirs fs tz).1,
       match (readTzFile dirs fs tz).2 with
       | some b => liftTz (parseTzFile b)
       | none =>
         match parsePosixTz (trimAsciiWhitespace tz) false with
         | .error e => .error (.tz e)
         | .ok rule =>
           liftTz (TimeZone.new [] (match rule with | .fixed t => [t] | .alternate a => [a.std, a.dst]) [] (some rule))) := by
  unfold resolveTz
  have e0 : tz.isEmpty = false := by cases tz <;> simp_all
  simp only [e0, h1]
  cases tz with
  | nil => exact absurd rfl h0
  | cons b bs =>
    have hb : b ≠ 58 := by simpa using h2
    simp only [Bool.false_eq_true, if_false]
    split
    · rename_i rest heq
      cases heq
      exact absurd rfl hb
    · cases hr : readTzFile dirs fs (b :: bs) with
      | mk paths r =>
        cases r with
        | some c => rfl
        | none =>
          simp only
          cases parsePosixTz (trimAsciiWhitespace (b :: bs)) false <;> rfl

/-- No other path is ever opened: every requested path is /etc/localtime (only for the literal
    `localtime`), the absolute value itself, or `dir/name` for a configured directory. -/
theorem only_candidates (dirs : List Bytes) (fs : Bytes → Option Bytes) (tz : Bytes) (p : Bytes)
    (hp : p ∈ (resolveTz dirs fs tz).1) :
    (tz = localtimeBytes ∧ p = etcLocaltimeBytes) ∨
    (let name := if tz.head? = some 58 then tz.tail else tz
     (name.head? = some 47 ∧ p = name) ∨ (name.head? ≠ some 47 ∧ p ∈ candidates dirs name)) := by
  have sub : ∀ l, ∀ q ∈ upToFirstReadable fs l, q ∈ l := by
    intro l
    induction l with
    | nil => simp [upToFirstReadable]
    | cons a as ih =>
      intro q hq
      simp only [upToFirstReadable] at hq
      split at hq
      · simp at hq; simp [hq]
      · simp at hq
        rcases hq with rfl | hq
        · simp
        · exact List.mem_cons_of_mem _ (ih q hq)
  have rd : ∀ name, p ∈ (readTzFile dirs fs name).1 →
      (name.head? = some 47 ∧ p = name) ∨ (name.head? ≠ some 47 ∧ p ∈ candidates dirs name) := by
    intro name hmem
    by_cases hn : name.head? = some 47
    · cases name with
      | nil => simp at hn
      | cons b bs =>
        simp at hn; subst hn
        rw [absolute_lookup] at hmem
        simp at hmem
        exact Or.inl ⟨rfl, hmem⟩
    · rw [relative_lookup dirs fs name hn] at hmem
      exact Or.inr ⟨hn, sub _ _ hmem⟩
  by_cases h0 : tz = []
  · subst h0; rw [empty_refused] at hp; simp at hp
  by_cases h1 : tz = localtimeBytes
  · subst h1; rw [localtime_value] at hp; simp at hp; exact Or.inl ⟨rfl, hp⟩
  right
  by_cases h2 : tz.head? = some 58
  · cases tz with
    | nil => simp at h2
    | cons b bs =>
      simp at h2; subst h2
      rw [colon_value] at hp
      simp only [List.head?_cons, if_true, List.tail_cons]
      exact rd bs hp
  · rw [plain_value dirs fs tz h0 h1 h2] at hp
    simp only [h2, if_false]
    exact rd tz hp

/-- non-vacuity: with directories /a, /b and only /b/Z readable (as garbage), `Z` opens /a/Z then /b/Z
    and the decoding error is final -/
example :
    let dirs : List Bytes := [[47, 97], [47, 98]]
    let fs : Bytes → Option Bytes := fun p => if p = [47, 98, 47, 90] then some [1, 2, 3] else none
    resolveTz dirs fs [90] = ([[47, 97, 47, 90], [47, 98, 47, 90]], .error (.tz (.tzFile (.parseData .unexpectedEof)))) := by
  decide

/-- a value that names no readable file is decoded by this parser (extensions off): src/parse/tz_string.rs translated to Lean on every run (DESIGN §13) equals the model's
    `parsePosixTz` used by the theorems above -/
theorem translated_parser_is_the_model (s : TzVerif.Model.Bytes) (ext : Bool) :
    Src.parse_posix_tz s ext = TzVerif.Model.parsePosixTz s ext :=
  TzVerif.Proofs.SrcEq.parse_posix_tz_eq s ext

/-! ### The same about the source text
`TimeZoneSettings::{read_tz_file, parse_posix_tz, parse_local}` (src/timezone/mod.rs) are translated to Lean on every
run (tools/rs2lean.py, DESIGN §13; `#[cfg(unix)]` statements as the compilation target has them). The calls of the
injected `read_file_fn` are effects: the translation threads the log of requested paths through every exit. With the
virtual file system read off the injected function (`fsOf`), result and log are exactly `resolveTz`'s two components,
for every settings value, every log so far and every TZ value that is a `&str` (well-formed UTF-8). -/

open TzVerif.Proofs.SrcEq in
theorem translated_source_is_the_model :
    (∀ (s : Src.TimeZoneSettings) (tz io : _), validUtf8 tz = true →
      Src.TimeZoneSettings.parse_posix_tz s tz io =
        ((resolveTz s.directories (fsOf s) tz).2, io ++ (resolveTz s.directories (fsOf s) tz).1)) ∧
    (∀ (s : Src.TimeZoneSettings) (tz io : _),
      Src.TimeZoneSettings.read_tz_file s tz io =
        (ioResult (readTzFile s.directories (fsOf s) tz).2, io ++ (readTzFile s.directories (fsOf s) tz).1)) ∧
    (∀ (s : Src.TimeZoneSettings) (io : _),
      Src.TimeZoneSettings.parse_local s io =
        ((resolveTz s.directories (fsOf s) localtimeBytes).2, io ++ (resolveTz s.directories (fsOf s) localtimeBytes).1)) :=
  ⟨fun s tz io h => settings_parse_posix_tz_eq s tz io h, read_tz_file_eq, parse_local_eq⟩

open TzVerif.Proofs.SrcEq in
/-- `only_candidates` about the source: starting from an empty log, every path the translated `parse_posix_tz` hands
    to the injected function is /etc/localtime (only for the literal `localtime`), the absolute value itself, or
    `dir/name` for a configured directory -/
theorem only_candidates_src (s : Src.TimeZoneSettings) (tz p : Bytes) (h : validUtf8 tz = true)
    (hp : p ∈ (Src.TimeZoneSettings.parse_posix_tz s tz []).2) :
    (tz = localtimeBytes ∧ p = etcLocaltimeBytes) ∨
    (let name := if tz.head? = some 58 then tz.tail else tz
     (name.head? = some 47 ∧ p = name) ∨ (name.head? ≠ some 47 ∧ p ∈ candidates s.directories name)) := by
  rw [settings_parse_posix_tz_eq s tz [] h] at hp
  simp only [List.nil_append] at hp
  exact only_candidates s.directories (fsOf s) tz p hp

open TzVerif.Proofs.SrcEq in
/-- the log only grows: what was requested before a call is still there, in order, before what the call requests -/
theorem log_is_appended_src (s : Src.TimeZoneSettings) (tz io : _) (h : validUtf8 tz = true) :
    (Src.TimeZoneSettings.parse_posix_tz s tz io).2 = io ++ (Src.TimeZoneSettings.parse_posix_tz s tz []).2 := by
  rw [settings_parse_posix_tz_eq s tz io h, settings_parse_posix_tz_eq s tz [] h]; simp

open TzVerif.Proofs.SrcEq in
/-- the four value shapes, about the source (empty log): refusal of the empty value, `localtime`, ':' without
    fallback, and file-then-description -/
theorem value_shapes_src (s : Src.TimeZoneSettings) :
    Src.TimeZoneSettings.parse_posix_tz s [] [] = (.error (.tz (.tzString .empty)), []) ∧
    Src.TimeZoneSettings.parse_posix_tz s localtimeBytes [] =
      ((match fsOf s etcLocaltimeBytes with
        | none => .error .io
        | some b => liftTz (parseTzFile b)), [etcLocaltimeBytes]) ∧
    (∀ rest, validUtf8 rest = true →
      Src.TimeZoneSettings.parse_posix_tz s (58 :: rest) [] =
        ((match (readTzFile s.directories (fsOf s) rest).2 with
          | none => .error .io
          | some b => liftTz (parseTzFile b)), (readTzFile s.directories (fsOf s) rest).1)) ∧
    (∀ tz, validUtf8 tz = true → tz ≠ [] → tz ≠ localtimeBytes → tz.head? ≠ some 58 →
      Src.TimeZoneSettings.parse_posix_tz s tz [] =
        ((match (readTzFile s.directories (fsOf s) tz).2 with
          | some b => liftTz (parseTzFile b)
          | none =>
            match parsePosixTz (trimAsciiWhitespace tz) false with
            | .error e => .error (.tz e)
            | .ok rule =>
              liftTz (TimeZone.new [] (match rule with | .fixed t => [t] | .alternate a => [a.std, a.dst]) [] (some rule))),
         (readTzFile s.directories (fsOf s) tz).1)) := by
  refine ⟨?_, ?_, ?_, ?_⟩
  · rw [settings_parse_posix_tz_eq s [] [] (by decide), empty_refused]; rfl
  · rw [settings_parse_posix_tz_eq s localtimeBytes [] (by decide), localtime_value]; rfl
  · intro rest hv
    have hv' : validUtf8 (58 :: rest) = true := by
      unfold validUtf8; simpa using hv
    rw [settings_parse_posix_tz_eq s (58 :: rest) [] hv', colon_value]; rfl
  · intro tz hv h0 h1 h2
    rw [settings_parse_posix_tz_eq s tz [] hv, plain_value s.directories (fsOf s) tz h0 h1 h2]; rfl

/-- non-vacuity, on the translated source: directories /a, /b, only /b/Z readable (garbage): `Z` requests /a/Z then
    /b/Z and the decoding error is final -/
example :
    let s : Src.TimeZoneSettings :=
      { directories := [[47, 97], [47, 98]], readFileFn := fun p => if p = [47, 98, 47, 90] then .ok [1, 2, 3] else .error () }
    Src.TimeZoneSettings.parse_posix_tz s [90] [] =
      (.error (.tz (.tzFile (.parseData .unexpectedEof))), [[47, 97, 47, 90], [47, 98, 47, 90]]) := by
  intro s
  rw [TzVerif.Proofs.SrcEq.settings_parse_posix_tz_eq s [90] [] (by decide)]
  decide

end TzVerif.C20
