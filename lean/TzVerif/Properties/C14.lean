/-
C14  A zoned date-time denotes one instant; its fields match it; projection preserves it.

`Proofs.Inv d`: the fields are a real date and time whose second count (`Spec.seconds`, linear, so
second 60 is the first second of the next minute) equals Unix time + UTC offset. It is stated with the
spec's total `seconds`, not with the range-limited `fromTimespec`: `DateTime::new(i32::MAX,12,31,
23,59,60, +3600)` is legitimately accepted although its normalised local date lies in year i32::MAX+1.
-/
import TzVerif.Model.Find
import TzVerif.Spec.Calendar
import TzVerif.Proofs.Zoned
import TzVerif.Proofs.SrcEqZone
import TzVerif.Proofs.SrcEqFind
import TzVerif.Proofs.SrcEqCmp
import TzVerif.Proofs.SrcEqGetters
import TzVerif.Generated.StableC14   -- per run: the current translation (SrcNow) equals the baseline (Src) these theorems are about

namespace TzVerif.C14
open TzVerif.Model TzVerif.Gen TzVerif.Proofs

/-- construction from fields: exact answer, clause by clause (refused when the fields are not a real
    date/time — with C02's errors — or when the instant would leave the supported range) -/
theorem new_correct (y mo d h mi s ns : Int) (l : LocalTimeType) :
    DateTime.new y mo d h mi s ns l = dtNewExpected y mo d h mi s ns l :=
  dtNew_eq_expected y mo d h mi s ns l

theorem new_invariant (y mo d h mi s ns : Int) (l : LocalTimeType) (x : DateTime) (hh : 0 ≤ h) (hmi : 0 ≤ mi) (hs : 0 ≤ s)
    (hx : DateTime.new y mo d h mi s ns l = .ok x) :
    Inv x ∧ x.nanoseconds = ns ∧ x.localTimeType = l ∧ MIN_UNIX_TIME ≤ x.unixTime ∧ x.unixTime ≤ MAX_UNIX_TIME ∧
    x.year = y ∧ x.month = mo ∧ x.monthDay = d ∧ x.hour = h ∧ x.minute = mi ∧ x.second = s :=
  dtNew_inv y mo d h mi s ns l x hh hmi hs hx

/-- from timestamp + local time type -/
theorem from_timespec_and_local (u ns : Int) (l : LocalTimeType) (x : DateTime)
    (hx : DateTime.fromTimespecAndLocal u ns l = .ok x) :
    Inv x ∧ x.unixTime = u ∧ x.nanoseconds = ns ∧ x.localTimeType = l ∧ x.second ≤ 59 ∧
    MIN_UNIX_TIME ≤ u + l.utOffset ∧ u + l.utOffset ≤ MAX_UNIX_TIME :=
  fromTimespecAndLocal_inv u ns l x hx

theorem from_timespec_and_local_accepts (u ns : Int) (l : LocalTimeType)
    (h : MIN_UNIX_TIME ≤ u + l.utOffset ∧ u + l.utOffset ≤ MAX_UNIX_TIME) :
    ∃ x, DateTime.fromTimespecAndLocal u ns l = .ok x :=
  fromTimespecAndLocal_accepts u ns l h

/-- from timestamp + zone -/
theorem from_timespec_zone (u ns : Int) (z : TimeZone) (x : DateTime) (hx : DateTime.fromTimespec u ns z = .ok x) :
    Inv x ∧ x.unixTime = u ∧ x.nanoseconds = ns :=
  fromTimespec_inv u ns z x hx

/-- from total nanoseconds -/
theorem from_total_nanoseconds (n : Int) (z : TimeZone) (x : DateTime) (hx : DateTime.fromTotalNanoseconds n z = .ok x) :
    Inv x ∧ x.unixTime * 1000000000 + x.nanoseconds = n ∧ 0 ≤ x.nanoseconds ∧ x.nanoseconds < 1000000000 :=
  fromTotal_inv n z x hx

theorem from_total_nanoseconds_and_local (n : Int) (l : LocalTimeType) (x : DateTime)
    (hx : DateTime.fromTotalNanosecondsAndLocal n l = .ok x) :
    Inv x ∧ x.unixTime * 1000000000 + x.nanoseconds = n ∧ 0 ≤ x.nanoseconds ∧ x.nanoseconds < 1000000000 ∧ x.localTimeType = l :=
  fromTotalLocal_inv n l x hx

/-- Re-projection into any zone keeps Unix time and nanoseconds (only fields and type change), and the
    same instant seen from two zones compares equal. -/
theorem projection (d : DateTime) (z : TimeZone) (x : DateTime) (hx : d.project z = .ok x) :
    Inv x ∧ x.unixTime = d.unixTime ∧ x.nanoseconds = d.nanoseconds ∧ d.beq x = true ∧ d.cmp x = 0 :=
  project_inv d z x hx

/-- every entry returned by the local-time search, gap entries included -/
theorem search_entries (y mo d h mi s ns : Int) (z : TimeZone) (rs : List Found) (hh : 0 ≤ h) (hmi : 0 ≤ mi) (hs : 0 ≤ s)
    (hr : findDateTime y mo d h mi s ns z = .ok rs) :
    ∀ f ∈ rs, match f with
      | .normal x => Inv x ∧ x.nanoseconds = ns ∧ MIN_UNIX_TIME ≤ x.unixTime ∧ x.unixTime ≤ MAX_UNIX_TIME ∧
          x.year = y ∧ x.month = mo ∧ x.monthDay = d ∧ x.hour = h ∧ x.minute = mi ∧ x.second = s
      | .skipped b a => Inv b ∧ Inv a ∧ b.unixTime = a.unixTime ∧ b.nanoseconds = ns ∧ a.nanoseconds = ns :=
  find_entries_inv y mo d h mi s ns z rs hh hmi hs hr

/-- equality and ordering depend only on (Unix time, nanoseconds) -/
theorem equality (a b : DateTime) : a.beq b = true ↔ (a.unixTime = b.unixTime ∧ a.nanoseconds = b.nanoseconds) :=
  beq_iff a b

theorem ordering (a b : DateTime) :
    (a.cmp b = -1 ↔ (a.unixTime < b.unixTime ∨ (a.unixTime = b.unixTime ∧ a.nanoseconds < b.nanoseconds))) ∧
    (a.cmp b = 0 ↔ (a.unixTime = b.unixTime ∧ a.nanoseconds = b.nanoseconds)) ∧
    (a.cmp b = 1 ↔ (a.unixTime > b.unixTime ∨ (a.unixTime = b.unixTime ∧ a.nanoseconds > b.nanoseconds))) :=
  cmp_spec a b

/-- non-vacuity: 23:59:60 at +01:00 on the last day of year i32::MAX is accepted and satisfies the invariant -/
example : (DateTime.new 2147483647 12 31 23 59 60 0 { utOffset := 3600, isDst := false, name := none }).isOk = true := by
  decide

/-! ### The same about the source text
`TzVerif.Src.*` is the Rust source translated to Lean on every run (tools/rs2lean.py, DESIGN §13); the
equalities below tie every theorem of this file, which is about the model, to the code as it is now. -/

theorem translated_source_is_the_model :
    (∀ y mo d h mi s ns l, Src.DateTime.new y mo d h mi s ns l = DateTime.new y mo d h mi s ns l) ∧
    (∀ u ns l, Src.DateTime.from_timespec_and_local u ns l = DateTime.fromTimespecAndLocal u ns l) ∧
    (∀ u ns (z : TimeZone), Src.DateTime.from_timespec u ns z = DateTime.fromTimespec u ns z) ∧
    (∀ (d : DateTime) (z : TimeZone), Src.DateTime.project d z = d.project z) ∧
    (∀ (c : UtcDateTime) (z : TimeZone), Src.UtcDateTime.project c z = c.project z) :=
  ⟨SrcEq.dt_new_eq, SrcEq.dt_from_timespec_and_local_eq, SrcEq.dt_from_timespec_eq, SrcEq.dt_project_eq, SrcEq.utc_project_eq⟩

theorem new_correct_src (y mo d h mi s ns : Int) (l : LocalTimeType) :
    Src.DateTime.new y mo d h mi s ns l = dtNewExpected y mo d h mi s ns l := by
  rw [SrcEq.dt_new_eq]; exact new_correct y mo d h mi s ns l

theorem projection_src (d : DateTime) (z : TimeZone) (x : DateTime) (hx : Src.DateTime.project d z = .ok x) :
    Inv x ∧ x.unixTime = d.unixTime ∧ x.nanoseconds = d.nanoseconds ∧ d.beq x = true ∧ d.cmp x = 0 :=
  projection d z x (SrcEq.dt_project_eq d z ▸ hx)

/-- `impl PartialEq for DateTime` as the source has it: equal exactly when Unix time and nanoseconds are -/
theorem equality_src (a b : DateTime) :
    Src.DateTime.eq a b = true ↔ (a.unixTime = b.unixTime ∧ a.nanoseconds = b.nanoseconds) := by
  rw [SrcEq.dt_eq_eq]; exact equality a b

/-- `impl PartialOrd for DateTime` as the source has it: always `Some`, lexicographic on (Unix time, nanoseconds);
`Equal` exactly when `eq` holds — in particular never `Equal` for two different instants, however far from the epoch -/
theorem ordering_src (a b : DateTime) :
    (Src.DateTime.partial_cmp a b = some .lt ↔ (a.unixTime < b.unixTime ∨ (a.unixTime = b.unixTime ∧ a.nanoseconds < b.nanoseconds))) ∧
    (Src.DateTime.partial_cmp a b = some .eq ↔ (a.unixTime = b.unixTime ∧ a.nanoseconds = b.nanoseconds)) ∧
    (Src.DateTime.partial_cmp a b = some .gt ↔ (a.unixTime > b.unixTime ∨ (a.unixTime = b.unixTime ∧ a.nanoseconds > b.nanoseconds))) ∧
    (Src.DateTime.partial_cmp a b = some .eq ↔ Src.DateTime.eq a b = true) ∧
    Src.DateTime.unix_time a = a.unixTime := by
  have h := ordering a b
  have hc : a.cmp b = -1 ∨ a.cmp b = 0 ∨ a.cmp b = 1 := by
    unfold DateTime.cmp; split <;> (try split) <;> (try split) <;> (try split) <;> simp
  rw [SrcEq.dt_partial_cmp_eq, equality_src]
  refine ⟨?_, ?_, ?_, ?_, rfl⟩
  · rw [← h.1]; unfold SrcEq.ordOf; rcases hc with hc | hc | hc <;> simp [hc]
  · rw [← h.2.1]; unfold SrcEq.ordOf; rcases hc with hc | hc | hc <;> simp [hc]
  · rw [← h.2.2]; unfold SrcEq.ordOf; rcases hc with hc | hc | hc <;> simp [hc]
  · rw [← h.2.1]; unfold SrcEq.ordOf; rcases hc with hc | hc | hc <;> simp [hc]

/-- `search_entries` about the translated search (src/datetime/find.rs `find_date_time`) -/
theorem search_entries_src (y mo d h mi s ns : Int) (z : TimeZone) (rs : List Found) (hh : 0 ≤ h) (hmi : 0 ≤ mi) (hs : 0 ≤ s)
    (hr : Src.find_date_time [] y mo d h mi s ns z = .ok rs) (f : Found) (hf : f ∈ rs) :
    match f with
      | .normal x => Inv x
      | .skipped b a => Inv b ∧ Inv a := by
  have h := search_entries y mo d h mi s ns z rs hh hmi hs (SrcEq.find_date_time_eq y mo d h mi s ns z ▸ hr) f hf
  cases f with
  | normal x => exact h.1
  | skipped b a => exact ⟨h.1, h.2.1⟩

/-- the getters of `DateTime` as the source has them (generated by `impl_datetime!()`, plus `local_time_type`) return
the stored fields the invariant is about; `week_day` / `year_day` are the calendar functions of those fields -/
theorem getters_src (d : DateTime) :
    Src.DateTime.year d = d.year ∧ Src.DateTime.month d = d.month ∧ Src.DateTime.month_day d = d.monthDay ∧
    Src.DateTime.hour d = d.hour ∧ Src.DateTime.minute d = d.minute ∧ Src.DateTime.second d = d.second ∧
    Src.DateTime.nanoseconds d = d.nanoseconds ∧ Src.DateTime.local_time_type d = d.localTimeType ∧
    Src.DateTime.unix_time d = d.unixTime ∧
    Src.DateTime.week_day d = weekDay d.year d.month d.monthDay ∧
    (1 ≤ d.month ∧ d.month ≤ 12 → 1 ≤ d.monthDay ∧ d.monthDay ≤ 255 → Src.DateTime.year_day d = yearDay d.year d.month d.monthDay) :=
  ⟨rfl, rfl, rfl, rfl, rfl, rfl, rfl, rfl, rfl, Proofs.SrcEq.dt_week_day_eq d, fun hm hd => Proofs.SrcEq.dt_year_day_eq d hm hd⟩

end TzVerif.C14
