/-
C01  gmtime: Unix time -> UTC calendar fields is correct and total on the range.

Property theorems only (helper lemmas live in `TzVerif/Proofs/`). Statements are fixed; proofs may
only be changed, never the statements.
-/
import TzVerif.Model.DateTime
import TzVerif.Spec.Calendar
import TzVerif.Proofs.Calendar
import TzVerif.Proofs.SrcEqCal
import TzVerif.Proofs.SrcEqGetters
import TzVerif.Generated.StableC01   -- per run: the current translation (SrcNow) equals the baseline (Src) these theorems are about

namespace TzVerif.C01
open TzVerif.Model TzVerif.Gen

/-- Every accepted timestamp yields exactly the fields of that instant: a real date, a time of day
    in range (never second 60), whose second count is `t`; nanoseconds are copied; the year fits i32. -/
theorem fields_correct (t ns : Int) (c : UtcDateTime) (h : UtcDateTime.fromTimespec t ns = .ok c) :
    Spec.ValidDate c.year c.month c.monthDay ∧
    0 ≤ c.hour ∧ c.hour ≤ 23 ∧ 0 ≤ c.minute ∧ c.minute ≤ 59 ∧ 0 ≤ c.second ∧ c.second ≤ 59 ∧
    Spec.seconds c.year c.month c.monthDay c.hour c.minute c.second = t ∧
    c.nanoseconds = ns ∧ i32Min ≤ c.year ∧ c.year ≤ i32Max :=
  Proofs.fromTimespec_fields t ns c h

/-- Accepted exactly on the supported range … -/
theorem accepted_iff (t ns : Int) :
    (∃ c, UtcDateTime.fromTimespec t ns = .ok c) ↔ (MIN_UNIX_TIME ≤ t ∧ t ≤ MAX_UNIX_TIME) :=
  Proofs.fromTimespec_accepted_iff t ns

/-- … and refused with the out-of-range error (never a wrong date) everywhere else. -/
theorem refused (t ns : Int) (h : ¬ (MIN_UNIX_TIME ≤ t ∧ t ≤ MAX_UNIX_TIME)) :
    UtcDateTime.fromTimespec t ns = .error .outOfRange :=
  Proofs.fromTimespec_refused t ns h

/-- The range ends are the first second of year i32::MIN and the last second of year i32::MAX. -/
theorem range_ends :
    MIN_UNIX_TIME = Spec.seconds i32Min 1 1 0 0 0 ∧ MAX_UNIX_TIME = Spec.seconds i32Max 12 31 23 59 59 := by
  decide

/-- The fields of an instant are unique, so `fields_correct` pins the answer down completely. -/
theorem fields_unique (y m d h mi s y' m' d' h' mi' s' : Int)
    (hd : Spec.ValidDate y m d) (hd' : Spec.ValidDate y' m' d')
    (ht : 0 ≤ h ∧ h ≤ 23 ∧ 0 ≤ mi ∧ mi ≤ 59 ∧ 0 ≤ s ∧ s ≤ 59)
    (ht' : 0 ≤ h' ∧ h' ≤ 23 ∧ 0 ≤ mi' ∧ mi' ≤ 59 ∧ 0 ≤ s' ∧ s' ≤ 59)
    (e : Spec.seconds y m d h mi s = Spec.seconds y' m' d' h' mi' s') :
    y = y' ∧ m = m' ∧ d = d' ∧ h = h' ∧ mi = mi' ∧ s = s' :=
  Proofs.seconds_injective y m d h mi s y' m' d' h' mi' s' hd hd' ht ht' e

/-- Day of week: days since Sunday of the instant's day (1970-01-01 was a Thursday), in [0, 6]. -/
theorem week_day (t ns : Int) (c : UtcDateTime) (h : UtcDateTime.fromTimespec t ns = .ok c) :
    weekDay c.year c.month c.monthDay = Spec.weekdayOfDay (t / 86400) ∧
    0 ≤ weekDay c.year c.month c.monthDay ∧ weekDay c.year c.month c.monthDay ≤ 6 :=
  Proofs.fromTimespec_weekDay t ns c h

/-- Day of year: days since January 1 of that year, in [0, yearLen - 1]. -/
theorem year_day (t ns : Int) (c : UtcDateTime) (h : UtcDateTime.fromTimespec t ns = .ok c) :
    yearDay c.year c.month c.monthDay = t / 86400 - Spec.daysBeforeYear c.year ∧
    0 ≤ yearDay c.year c.month c.monthDay ∧ yearDay c.year c.month c.monthDay < Spec.yearLen c.year :=
  Proofs.fromTimespec_yearDay t ns c h

/-- non-vacuity: a concrete instant (2024-02-29T23:59:59Z) is accepted with the expected fields -/
example : UtcDateTime.fromTimespec 1709251199 7 =
    .ok { year := 2024, month := 2, monthDay := 29, hour := 23, minute := 59, second := 59, nanoseconds := 7 } := by
  decide

/-! ### The same about the source text
`TzVerif.Src.*` is the Rust source translated to Lean on every run (tools/rs2lean.py, DESIGN §13); the
equalities below tie every theorem of this file, which is about the model, to the code as it is now. -/

theorem translated_source_is_the_model :
    (∀ t ns, Src.UtcDateTime.from_timespec t ns = UtcDateTime.fromTimespec t ns) ∧
    (∀ y m d, Src.week_day y m d = weekDay y m d) ∧
    (∀ y m d, 1 ≤ m ∧ m ≤ 12 → 1 ≤ d ∧ d ≤ 255 → Src.year_day y m d = yearDay y m d) ∧
    (∀ y, Src.is_leap_year y = isLeapYear y) ∧ (∀ a b, Src.min a b = minI a b) ∧
    (∀ v, Src.try_into_i32 v = tryIntoI32 v) :=
  ⟨Proofs.SrcEq.utc_from_timespec_eq, Proofs.SrcEq.week_day_eq, fun y m d hm hd => Proofs.SrcEq.year_day_eq y m d hm hd,
   Proofs.SrcEq.is_leap_year_eq, Proofs.SrcEq.min_eq, Proofs.SrcEq.try_into_i32_eq⟩

/-- `fields_correct`, `accepted_iff` and `refused` about the translated `UtcDateTime::from_timespec` -/
theorem fields_correct_src (t ns : Int) (c : UtcDateTime) (h : Src.UtcDateTime.from_timespec t ns = .ok c) :
    Spec.ValidDate c.year c.month c.monthDay ∧
    0 ≤ c.hour ∧ c.hour ≤ 23 ∧ 0 ≤ c.minute ∧ c.minute ≤ 59 ∧ 0 ≤ c.second ∧ c.second ≤ 59 ∧
    Spec.seconds c.year c.month c.monthDay c.hour c.minute c.second = t ∧
    c.nanoseconds = ns ∧ i32Min ≤ c.year ∧ c.year ≤ i32Max :=
  fields_correct t ns c (Proofs.SrcEq.utc_from_timespec_eq t ns ▸ h)

theorem accepted_iff_src (t ns : Int) :
    (∃ c, Src.UtcDateTime.from_timespec t ns = .ok c) ↔ (MIN_UNIX_TIME ≤ t ∧ t ≤ MAX_UNIX_TIME) := by
  rw [Proofs.SrcEq.utc_from_timespec_eq]; exact accepted_iff t ns

/-- what a user reads: the getters `impl_datetime!()` generates, as the source has them, applied to the result of the
translated `UtcDateTime::from_timespec` — the stored fields, the weekday and the day of year of the instant -/
theorem getters_src (t ns : Int) (c : UtcDateTime) (h : Src.UtcDateTime.from_timespec t ns = .ok c) :
    Src.UtcDateTime.year c = c.year ∧ Src.UtcDateTime.month c = c.month ∧ Src.UtcDateTime.month_day c = c.monthDay ∧
    Src.UtcDateTime.hour c = c.hour ∧ Src.UtcDateTime.minute c = c.minute ∧ Src.UtcDateTime.second c = c.second ∧
    Src.UtcDateTime.nanoseconds c = ns ∧
    Src.UtcDateTime.week_day c = Spec.weekdayOfDay (t / 86400) ∧
    Src.UtcDateTime.year_day c = t / 86400 - Spec.daysBeforeYear c.year := by
  have h' := Proofs.SrcEq.utc_from_timespec_eq t ns ▸ h
  have hf := fields_correct t ns c h'
  obtain ⟨hm1, hm12, hd1, hdl⟩ := hf.1
  have hd255 : c.monthDay ≤ 255 := by
    have : Spec.monthLen c.year c.month ≤ 31 := by unfold Spec.monthLen; repeat' split <;> omega
    omega
  refine ⟨rfl, rfl, rfl, rfl, rfl, rfl, hf.2.2.2.2.2.2.2.2.1, ?_, ?_⟩
  · rw [Proofs.SrcEq.utc_week_day_eq]; exact (week_day t ns c h').1
  · rw [Proofs.SrcEq.utc_year_day_eq c ⟨hm1, hm12⟩ ⟨hd1, hd255⟩]; exact (year_day t ns c h').1

end TzVerif.C01
