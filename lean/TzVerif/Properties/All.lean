/-
Every property module at once: checks that the whole development is consistent (no name clashes) and
gives `leanchecker` one root.
-/
import TzVerif.Properties.C01
import TzVerif.Properties.C02
import TzVerif.Properties.C03
import TzVerif.Properties.C04
import TzVerif.Properties.C05
import TzVerif.Properties.C06
import TzVerif.Properties.C07
import TzVerif.Properties.C08
import TzVerif.Properties.C09
import TzVerif.Properties.C10
import TzVerif.Properties.C11
import TzVerif.Properties.C12
import TzVerif.Properties.C13
import TzVerif.Properties.C14
import TzVerif.Properties.C15
import TzVerif.Properties.C16
import TzVerif.Properties.C17
import TzVerif.Properties.C18
import TzVerif.Properties.C20
