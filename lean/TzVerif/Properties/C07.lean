/-
C07  No panic, overflow or abort: every failure on any input is a returned error.

What a theorem can carry here (PARTIAL — see DESIGN §6 C07 and the trusted base):
 (a) every function of the model is a total Lean function (structural or well-founded recursion, no
     `partial`): no unbounded loop in the modelled logic;
 (b) the unchecked arithmetic, index, cast, `unreachable!` and `with_capacity` sites of the modelled
     functions cannot fail: the obligations below, stated on the model's unbounded integers against the
     ranges of the Rust types;
 (c) the inventory of such sites, regenerated from /repo/src on every run (`Gen.siteCounts`), equals the
     inventory these obligations were written against (`registeredSiteCounts`): a new or removed
     `unwrap`, `unreachable!`, checked/saturating call, cast, index expression, `with_capacity`, loop or
     arithmetic operator is an undischarged obligation until this file is revisited.
NOT provable here: stack exhaustion, allocator failure, the internals of `core`/`alloc` (formatting,
`str::parse`, `Vec`); those are exercised by the hostile streams in the overflow-checked build.
-/
import TzVerif.Generated.Sites
import TzVerif.Proofs.NoPanic
import TzVerif.Proofs.SrcEqZone
import TzVerif.Generated.StableC07   -- per run: the current translation (SrcNow) equals the baseline (Src) these theorems are about

namespace TzVerif.C07
open TzVerif.Model TzVerif.Gen TzVerif.Proofs

/-- the site inventory the obligations below were written against
    (kinds: unwrap, unreachable, panic, checked, cast, index, capacity, loop, plusminus, divmod) -/
def registeredSiteCounts : List (Nat × List Nat) := [
  (1, [0, 0, 0, 0, 0, 0, 0, 0, 0, 0]),
  (2, [0, 0, 0, 0, 0, 0, 0, 0, 11, 0]),
  (4, [0, 0, 0, 0, 6, 11, 0, 3, 20, 0]),
  (3, [0, 0, 0, 5, 32, 5, 0, 1, 59, 24]),
  (6, [0, 0, 0, 0, 0, 0, 0, 0, 0, 0]),
  (5, [0, 0, 0, 0, 0, 0, 0, 0, 2, 0]),
  (7, [0, 0, 0, 0, 0, 0, 0, 0, 0, 0]),
  (8, [0, 0, 0, 0, 0, 0, 0, 0, 0, 0]),
  (9, [0, 0, 0, 0, 0, 0, 0, 0, 0, 0]),
  (10, [4, 0, 0, 0, 8, 10, 3, 4, 6, 0]),
  (11, [0, 0, 0, 0, 0, 1, 0, 0, 16, 0]),
  (12, [0, 0, 0, 0, 0, 5, 0, 0, 0, 0]),
  (13, [0, 1, 1, 6, 3, 31, 6, 4, 17, 0]),
  (14, [0, 1, 0, 4, 30, 10, 0, 0, 136, 2]),
  (16, [0, 0, 0, 0, 0, 1, 0, 1, 3, 1]),
  (15, [0, 0, 0, 0, 0, 0, 0, 0, 0, 0]),
  (17, [0, 0, 0, 4, 0, 0, 0, 0, 0, 0])]

/-- (c) the source has exactly the sites that were examined -/
theorem site_inventory_unchanged : Gen.siteCounts = registeredSiteCounts := by decide

/-! (b) the obligations -/

theorem days_since_unix_epoch_fits (y m d : Int) (hy : InI32 y) (hm : 1 ≤ m ∧ m ≤ 12) (hd : 1 ≤ d ∧ d ≤ 32) :
    -800000000000 ≤ daysSinceUnixEpoch y m d ∧ daysSinceUnixEpoch y m d ≤ 800000000000 ∧
    InI64 ((y - 1970) * 365) :=
  daysSinceUnixEpoch_range y m d hy hm hd

theorem unix_time_fits (y m d h mi s : Int) (hy : InI32 y) (hm : 1 ≤ m ∧ m ≤ 12) (hd : 1 ≤ d ∧ d ≤ 32)
    (hh : 0 ≤ h ∧ h ≤ 255) (hmi : 0 ≤ mi ∧ mi ≤ 255) (hs : 0 ≤ s ∧ s ≤ 255) :
    -70000000000000000 ≤ unixTime y m d h mi s ∧ unixTime y m d h mi s ≤ 70000000000000000 :=
  unixTime_range y m d h mi s hy hm hd hh hmi hs

theorem overflow_is_not_possible_comments (y m d h mi s off st : Int) (hy : InI32 y) (hm : 1 ≤ m ∧ m ≤ 12) (hd : 1 ≤ d ∧ d ≤ 32)
    (hh : 0 ≤ h ∧ h ≤ 255) (hmi : 0 ≤ mi ∧ mi ≤ 255) (hs : 0 ≤ s ∧ s ≤ 255) (ho : InI32 off) (hst : InI32 st) :
    InI64 (unixTime y m d h mi s - off) ∧ InI64 (st - off) :=
  offset_subtractions_fit y m d h mi s off st hy hm hd hh hmi hs ho hst

theorem rule_day_unix_time_fits (d : RuleDay) (y t : Int) (hy : i32Min + 1 ≤ y ∧ y ≤ i32Max - 1)
    (ht : -4294967296 ≤ t ∧ t ≤ 4294967296)
    (hv : match d with
      | .julian1 n => 1 ≤ n ∧ n ≤ 365
      | .julian0 n => 0 ≤ n ∧ n ≤ 365
      | .mwd mo w wd => 1 ≤ mo ∧ mo ≤ 12 ∧ 1 ≤ w ∧ w ≤ 5 ∧ 0 ≤ wd ∧ wd ≤ 6) :
    InI64 (d.unixTime y t) ∧
    1 ≤ (d.transitionDate y).1 ∧ (d.transitionDate y).1 ≤ 12 ∧ 1 ≤ (d.transitionDate y).2 ∧ (d.transitionDate y).2 ≤ 32 :=
  ruleDay_unixTime_fits d y t hy ht hv

theorem from_timespec_casts_lossless (t ns : Int) (ht : InI64 t) (c : UtcDateTime)
    (h : UtcDateTime.fromTimespec t ns = .ok c) :
    1 ≤ c.month ∧ c.month ≤ 12 ∧ 1 ≤ c.monthDay ∧ c.monthDay ≤ 31 ∧ 0 ≤ c.hour ∧ c.hour ≤ 23 ∧
    0 ≤ c.minute ∧ c.minute ≤ 59 ∧ 0 ≤ c.second ∧ c.second ≤ 59 :=
  fromTimespec_intermediates t ns ht c h

theorem from_timespec_year_fits (t : Int) (ht : InI64 t) (hs : InI64 (t - UNIX_OFFSET_SECS)) :
    let seconds := t - UNIX_OFFSET_SECS
    let days := seconds / 86400
    InI64 (2000 + 3 + 24 * 4 + 3 * 100 + (days / 146097) * 400 + 1) ∧ InI64 ((days / 146097 - 1) * 400) :=
  fromTimespec_year_expr_fits t ht hs

theorem unreachable_week_arm (m1 w1 wd1 t1 m2 w2 wd2 t2 : Int) (hw1 : 1 ≤ w1 ∧ w1 ≤ 5) (hw2 : 1 ≤ w2 ∧ w2 ≤ 5)
    (hm : (m2 - m1) % 12 = 0) :
    let wb := if w1 ≤ w2 then w1 else w2
    let wa := if w1 ≤ w2 then w2 else w1
    ¬ (wb = 5 ∧ 1 ≤ wa ∧ wa ≤ 4) :=
  unreachable_arm_not_taken m1 w1 wd1 t1 m2 w2 wd2 t2 hw1 hw2 hm

theorem unreachable_designation_length (input n : List Nat) (h : TzAsciiStr.new input = .ok n) :
    n = input ∧ 3 ≤ n.length ∧ n.length ≤ 7 ∧ ∀ b ∈ n, b < 128 :=
  designation_length_byte input n h

theorem lookup_indexes_in_bounds (z : TimeZone) (hw : Spec.WFZone z) (L : Int) :
    Spec.typeIndexAt z.transitions L < z.localTimeTypes.length ∧ 0 < z.localTimeTypes.length :=
  lookup_index_in_range z hw L

theorem allocation_bounded_by_input (ts : Nat) (hts : 0 < ts) (c : Bytes) (h : Header) (blocks : DataBlocks) (rest : Bytes)
    (hr : readDataBlocks ts c h = .ok (blocks, rest)) :
    h.transitionCount ≤ c.length ∧ h.typeCount ≤ c.length ∧ h.leapCount ≤ c.length ∧
    h.transitionCount * ts + h.transitionCount + h.typeCount * 6 + h.charCount + h.leapCount * (ts + 4) +
      h.stdWallCount + h.utLocalCount + rest.length = c.length :=
  capacity_bounded_by_input ts hts c h blocks rest hr

theorem header_products_fit_usize (c : Bytes) (hb : ∀ b ∈ c, b < 256) (h : Header) (rest : Bytes) (hp : parseHeader c = .ok (h, rest)) :
    h.transitionCount < 2 ^ 32 ∧ h.typeCount < 2 ^ 32 ∧ h.charCount < 2 ^ 32 ∧ h.leapCount < 2 ^ 32 ∧
    h.stdWallCount < 2 ^ 32 ∧ h.utLocalCount < 2 ^ 32 ∧ h.leapCount * (8 + 4) < 2 ^ 64 ∧ h.transitionCount * 8 < 2 ^ 64 :=
  header_counts_are_u32 c hb h rest hp

theorem tz_offset_arithmetic_fits (c : Bytes) (v : Int) (rest : Bytes) (h : parseOffset c = .ok (v, rest)) :
    -89999 ≤ v ∧ v ≤ 89999 ∧ InI32 (-v) ∧ InI32 (v - 3600) :=
  tz_offset_arith_fits c v rest h

theorem tz_rule_time_arithmetic_fits (c : Bytes) (ext : Bool) (v : Int) (rest : Bytes)
    (h : (if ext then parseRuleTimeExtended c else parseRuleTime c) = .ok (v, rest)) :
    -604799 ≤ v ∧ v ≤ 604799 :=
  tz_rule_time_arith_fits c ext v rest h

/-! ### The cast sites of the translated source
In `TzVerif.Src` (the source translated on every run, DESIGN §13) every `as T` is a two's-complement wrap
(`Src.wrap_T`). The model has no wraps; the equalities below therefore say that in these functions no cast
loses information, for all arguments (resp. for arguments of the Rust types where stated). -/
theorem casts_in_the_translated_source_are_lossless :
    (∀ t ns, Src.UtcDateTime.from_timespec t ns = UtcDateTime.fromTimespec t ns) ∧
    (∀ y m d, Src.week_day y m d = weekDay y m d) ∧
    (∀ y m d, 1 ≤ m ∧ m ≤ 12 → 1 ≤ d ∧ d ≤ 255 → Src.year_day y m d = yearDay y m d) ∧
    (∀ n, Src.total_nanoseconds_to_timespec n = totalNanosecondsToTimespec n) ∧
    (∀ v, Src.try_into_i32 v = tryIntoI32 v) ∧ (∀ v, Src.try_into_i64 v = tryIntoI64 v) :=
  ⟨Proofs.SrcEq.utc_from_timespec_eq, Proofs.SrcEq.week_day_eq, fun y m d hm hd => Proofs.SrcEq.year_day_eq y m d hm hd,
   Proofs.SrcEq.total_nanoseconds_to_timespec_eq, Proofs.SrcEq.try_into_i32_eq, Proofs.SrcEq.try_into_i64_eq⟩

end TzVerif.C07
