/-
C11  The DST rule constructor accepts exactly the rules whose start/end order never flips.

`Spec.Consistent a`: over ALL years y, start(y) vs end(y), end(y) vs start(y+1) and start(y) vs
end(y+1) each never change sign. "Never change sign" is read as the weak order
((∀y, s y ≤ e y) ∨ (∀y, e y ≤ s y)), which is literally what the Julian×Julian branch tests and the
reading under which the exhaustive comparison of DESIGN §2 is exact.
-/
import TzVerif.Model.Rule
import TzVerif.Spec.Rule
import TzVerif.Proofs.Consist
import TzVerif.Proofs.SrcEqRule
import TzVerif.Generated.StableC11   -- per run: the current translation (SrcNow) equals the baseline (Src) these theorems are about

namespace TzVerif.C11
open TzVerif.Model TzVerif.Proofs

/-- the constructor's answer, clause by clause in the order of its errors -/
theorem new_accepts_iff (std dst : LocalTimeType) (ds : RuleDay) (st : Int) (de : RuleDay) (et : Int) (a : AlternateTime)
    (hds : ValidRuleDay ds) (hde : ValidRuleDay de) :
    AlternateTime.new std dst ds st de et = .ok a ↔
      (a = mkAlt std dst ds st de et ∧
       -90000 < std.utOffset ∧ std.utOffset < 93600 ∧ -90000 < dst.utOffset ∧ dst.utOffset < 93600 ∧
       -604800 < st ∧ st < 604800 ∧ -604800 < et ∧ et < 604800 ∧
       Spec.Consistent (mkAlt std dst ds st de et)) :=
  Proofs.new_ok_iff std dst ds st de et a hds hde

/-- every other rule is refused with the specific error for the (first) violated condition -/
theorem new_errors (std dst : LocalTimeType) (ds : RuleDay) (st : Int) (de : RuleDay) (et : Int) (e : TransitionRuleError)
    (hds : ValidRuleDay ds) (hde : ValidRuleDay de)
    (h : AlternateTime.new std dst ds st de et = .error e) :
    (e = .invalidStdUtcOffset ∧ ¬ (-90000 < std.utOffset ∧ std.utOffset < 93600)) ∨
    (e = .invalidDstUtcOffset ∧ (-90000 < std.utOffset ∧ std.utOffset < 93600) ∧ ¬ (-90000 < dst.utOffset ∧ dst.utOffset < 93600)) ∨
    (e = .invalidDstStartEndTime ∧ (-90000 < std.utOffset ∧ std.utOffset < 93600) ∧ (-90000 < dst.utOffset ∧ dst.utOffset < 93600) ∧
       ¬ (-604800 < st ∧ st < 604800 ∧ -604800 < et ∧ et < 604800)) ∨
    (e = .inconsistentRule ∧ (-90000 < std.utOffset ∧ std.utOffset < 93600) ∧ (-90000 < dst.utOffset ∧ dst.utOffset < 93600) ∧
       (-604800 < st ∧ st < 604800 ∧ -604800 < et ∧ et < 604800) ∧ ¬ Spec.Consistent (mkAlt std dst ds st de et)) :=
  Proofs.new_error_cases std dst ds st de et e hds hde h

/-- "for all years" is decided on 28 consecutive years (every kind of (year, next year) occurs) -/
theorem all_years_decided_on_a_cycle (a : AlternateTime) (hs : RuleShape a) :
    Spec.Consistent a ↔ Spec.consistentB a = true :=
  Proofs.consistent_iff_B a hs

/-- hence no accepted rule can flip its start/end order from one year to the next -/
theorem no_order_flip (std dst : LocalTimeType) (ds : RuleDay) (st : Int) (de : RuleDay) (et : Int) (a : AlternateTime)
    (hds : ValidRuleDay ds) (hde : ValidRuleDay de) (h : AlternateTime.new std dst ds st de et = .ok a) :
    (∀ y, Spec.startInstant a y ≤ Spec.endInstant a y) ∨ (∀ y, Spec.endInstant a y ≤ Spec.startInstant a y) := by
  have := (new_accepts_iff std dst ds st de et a hds hde).mp h
  obtain ⟨ha, _, _, _, _, _, _, _, _, hc⟩ := this
  rw [ha]
  exact hc.1

/-- non-vacuity: the US rule is accepted; a rule whose order flips (`J59` vs `59`, same time) is refused -/
example :
    let std : LocalTimeType := { utOffset := -18000, isDst := false, name := some [69, 83, 84] }
    let dst : LocalTimeType := { utOffset := -14400, isDst := true, name := some [69, 68, 84] }
    (AlternateTime.new std dst (.mwd 3 2 0) 7200 (.mwd 11 1 0) 7200).isOk = true ∧
    AlternateTime.new std dst (.julian1 60) 0 (.julian0 59) 7200 = .error .inconsistentRule := by
  decide +kernel

/-! ### The same about the source text
`TzVerif.Src.*` is the Rust source translated to Lean on every run (tools/rs2lean.py, DESIGN §13); the
equalities below tie every theorem of this file, which is about the model, to the code as it is now. -/

theorem translated_source_is_the_model :
    (∀ std dst ds st de et, Src.AlternateTime.new std dst ds st de et = AlternateTime.new std dst ds st de et) ∧
    (∀ std dst ds st de et, Src.check_dst_transition_rules_consistency std dst ds st de et = checkDstTransitionRulesConsistency std dst ds st de et) ∧
    (∀ m1 w1 wd1 t1 m2 w2 wd2 t2,
      Src.check_two_month_week_days { month := m1, week := w1, weekDay := wd1 } t1 { month := m2, week := w2, weekDay := wd2 } t2
        = checkTwoMonthWeekDays m1 w1 wd1 t1 m2 w2 wd2 t2) ∧
    (∀ a b, Src.check_two_julian_days a b = checkTwoJulianDays (SrcEq.jInfo a) (SrcEq.jInfo b)) ∧
    (∀ a b, Src.check_month_week_day_and_julian_day a b = checkMonthWeekDayAndJulianDay (SrcEq.mInfo a) (SrcEq.jInfo b)) :=
  ⟨SrcEq.alternate_new_eq, SrcEq.check_dst_transition_rules_consistency_eq, SrcEq.check_two_month_week_days_eq,
   SrcEq.check_two_julian_days_eq, SrcEq.check_month_week_day_and_julian_day_eq⟩

/-- `no_order_flip` about the translated constructor -/
theorem no_order_flip_src (std dst : LocalTimeType) (ds : RuleDay) (st : Int) (de : RuleDay) (et : Int) (a : AlternateTime)
    (hds : ValidRuleDay ds) (hde : ValidRuleDay de) (h : Src.AlternateTime.new std dst ds st de et = .ok a) :
    (∀ y, Spec.startInstant a y ≤ Spec.endInstant a y) ∨ (∀ y, Spec.endInstant a y ≤ Spec.startInstant a y) :=
  no_order_flip std dst ds st de et a hds hde (SrcEq.alternate_new_eq std dst ds st de et ▸ h)

end TzVerif.C11
