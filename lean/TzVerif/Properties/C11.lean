/-
C11  The DST rule constructor accepts exactly the rules whose start/end order never flips.

`Spec.Consistent a`: over ALL years y, start(y) vs end(y), end(y) vs start(y+1) and start(y) vs
end(y+1) each never change sign. "Never change sign" is read as the weak order
((∀y, s y ≤ e y) ∨ (∀y, e y ≤ s y)), which is literally what the Julian×Julian branch tests and the
reading under which the exhaustive comparison of DESIGN §2 is exact.
-/
import TzVerif.Model.Rule
import TzVerif.Spec.Rule
import TzVerif.Proofs.Consist

namespace TzVerif.C11
open TzVerif.Model TzVerif.Proofs

/-- the constructor's answer, clause by clause in the order of its errors -/
theorem new_accepts_iff (std dst : LocalTimeType) (ds : RuleDay) (st : Int) (de : RuleDay) (et : Int) (a : AlternateTime)
    (hds : ValidRuleDay ds) (hde : ValidRuleDay de) :
    AlternateTime.new std dst ds st de et = .ok a ↔
      (a = mkAlt std dst ds st de et ∧
       -90000 < std.utOffset ∧ std.utOffset < 93600 ∧ -90000 < dst.utOffset ∧ dst.utOffset < 93600 ∧
       -604800 < st ∧ st < 604800 ∧ -604800 < et ∧ et < 604800 ∧
       Spec.Consistent (mkAlt std dst ds st de et)) :=
  Proofs.new_ok_iff std dst ds st de et a hds hde

/-- every other rule is refused with the specific error for the (first) violated condition -/
theorem new_errors (std dst : LocalTimeType) (ds : RuleDay) (st : Int) (de : RuleDay) (et : Int) (e : TransitionRuleError)
    (hds : ValidRuleDay ds) (hde : ValidRuleDay de)
    (h : AlternateTime.new std dst ds st de et = .error e) :
    (e = .invalidStdUtcOffset ∧ ¬ (-90000 < std.utOffset ∧ std.utOffset < 93600)) ∨
    (e = .invalidDstUtcOffset ∧ (-90000 < std.utOffset ∧ std.utOffset < 93600) ∧ ¬ (-90000 < dst.utOffset ∧ dst.utOffset < 93600)) ∨
    (e = .invalidDstStartEndTime ∧ (-90000 < std.utOffset ∧ std.utOffset < 93600) ∧ (-90000 < dst.utOffset ∧ dst.utOffset < 93600) ∧
       ¬ (-604800 < st ∧ st < 604800 ∧ -604800 < et ∧ et < 604800)) ∨
    (e = .inconsistentRule ∧ (-90000 < std.utOffset ∧ std.utOffset < 93600) ∧ (-90000 < dst.utOffset ∧ dst.utOffset < 93600) ∧
       (-604800 < st ∧ st < 604800 ∧ -604800 < et ∧ et < 604800) ∧ ¬ Spec.Consistent (mkAlt std dst ds st de et)) :=
  Proofs.new_error_cases std dst ds st de et e hds hde h

/-- "for all years" is decided on 28 consecutive years (every kind of (year, next year) occurs) -/
theorem all_years_decided_on_a_cycle (a : AlternateTime) (hs : RuleShape a) :
    Spec.Consistent a ↔ Spec.consistentB a = true :=
  Proofs.consistent_iff_B a hs

/-- hence no accepted rule can flip its start/end order from one year to the next -/
theorem no_order_flip (std dst : LocalTimeType) (ds : RuleDay) (st : Int) (de : RuleDay) (et : Int) (a : AlternateTime)
    (hds : ValidRuleDay ds) (hde : ValidRuleDay de) (h : AlternateTime.new std dst ds st de et = .ok a) :
    (∀ y, Spec.startInstant a y ≤ Spec.endInstant a y) ∨ (∀ y, Spec.endInstant a y ≤ Spec.startInstant a y) := by
  have := (new_accepts_iff std dst ds st de et a hds hde).mp h
  obtain ⟨ha, _, _, _, _, _, _, _, _, hc⟩ := this
  rw [ha]
  exact hc.1

/-- non-vacuity: the US rule is accepted; a rule whose order flips (`J59` vs `59`, same time) is refused -/
example :
    let std : LocalTimeType := { utOffset := -18000, isDst := false, name := some [69, 83, 84] }
    let dst : LocalTimeType := { utOffset := -14400, isDst := true, name := some [69, 68, 84] }
    (AlternateTime.new std dst (.mwd 3 2 0) 7200 (.mwd 11 1 0) 7200).isOk = true ∧
    AlternateTime.new std dst (.julian1 60) 0 (.julian0 59) 7200 = .error .inconsistentRule := by
  decide +kernel

end TzVerif.C11
