/-
C05  mktime: the valid search results are exactly the instants showing that local time.

"At instant u the zone's clock shows the searched date-time" is: the forward lookup (C03/C04/C12) at u
gives type τ and u + τ.offset is the second count of the searched fields.

PROVED (`*_partial` in the sense of the brief): zones WITHOUT a DST rule — table only, table + fixed
rule, fixed rule only, single type; any table, any offsets, leap seconds included.
NOT PROVED, and FALSE for all accepted zones: with a DST rule the statement fails for rules in the
known-finding classes F1 (reverse order with a tie) and F2 (overlapping periods); `counterexample_F2`
below is the proved witness (the same valid instant is returned twice). For DST rules outside those
classes the property rests on the correspondence + oracle runs.
-/
import TzVerif.Model.Find
import TzVerif.Spec.Zone
import TzVerif.Proofs.Search

namespace TzVerif.C05
open TzVerif.Model TzVerif.Proofs

/-- each returned instant, converted back with the same zone, reproduces the searched fields' second
    count and the returned local time type -/
theorem results_show_the_local_time_partial (y mo d h mi s ns : Int) (z : TimeZone) (rs : List Found)
    (hz : ZoneOK z) (hr : NoDstRule z)
    (hf : findDateTime y mo d h mi s ns z = .ok rs) (x : DateTime) (hx : Found.normal x ∈ rs) :
    z.findLocalTimeType x.unixTime = .ok x.localTimeType ∧
    x.unixTime + x.localTimeType.utOffset = Spec.seconds y mo d h mi s :=
  search_sound y mo d h mi s ns z rs hz hr hf x hx

/-- no instant with that property is missing, for every instant of the i64 range -/
theorem no_instant_missing_partial (y mo d h mi s ns : Int) (z : TimeZone) (rs : List Found)
    (hz : ZoneOK z) (hr : NoDstRule z)
    (hf : findDateTime y mo d h mi s ns z = .ok rs) (u : Int) (t : LocalTimeType)
    (hu : i64Min ≤ u ∧ u ≤ i64Max)
    (hl : z.findLocalTimeType u = .ok t) (hc : u + t.utOffset = Spec.seconds y mo d h mi s) :
    ∃ x, Found.normal x ∈ rs ∧ x.unixTime = u ∧ x.localTimeType = t :=
  search_complete y mo d h mi s ns z rs hz hr hf u t hu hl hc

/-- … or duplicated (valid results strictly increase in time) -/
theorem no_duplicates_partial (y mo d h mi s ns : Int) (z : TimeZone) (rs : List Found)
    (hz : ZoneOK z) (hr : NoDstRule z) (hf : findDateTime y mo d h mi s ns z = .ok rs) :
    List.Pairwise (fun a b => a.unixTime < b.unixTime) (normalsOf rs) :=
  search_normals_strict y mo d h mi s ns z rs hz hr hf

/-- F2: an accepted rule with overlapping periods makes the search return the same instant twice -/
theorem counterexample_F2 :
    let std : LocalTimeType := { utOffset := 0, isDst := false, name := some [83, 84, 68] }
    let dst : LocalTimeType := { utOffset := 3600, isDst := true, name := some [68, 83, 84] }
    let a : AlternateTime := { std, dst, dstStart := .julian1 1, dstStartTime := -601200, dstEnd := .julian1 365, dstEndTime := 601200 }
    let x : DateTime := { year := 2021, month := 6, monthDay := 1, hour := 12, minute := 0, second := 0,
                          localTimeType := dst, unixTime := 1622545200, nanoseconds := 0 }
    AlternateTime.new std dst (.julian1 1) (-601200) (.julian1 365) 601200 = .ok a ∧
    findDateTime 2021 6 1 12 0 0 0
      { transitions := [], localTimeTypes := [std, dst], leapSeconds := [], extraRule := some (.alternate a) } =
        .ok [.normal x, .normal x] := by
  decide +kernel

end TzVerif.C05
