/-
C05  mktime: the valid search results are exactly the instants showing that local time.

"At instant u the zone's clock shows the searched date-time" is: the forward lookup (C03/C04/C12) at u
gives type τ and u + τ.offset is the second count of the searched fields.

PROVED (`*_partial` in the sense of the brief):
 * zones WITHOUT a DST rule — table only, table + fixed rule, fixed rule only, single type; any table,
   any offsets, leap seconds included (`*_partial`);
 * zones WITH a DST rule (rule only, or table + rule) whose rule satisfies C04's hypotheses
   (`RuleOK`: accepted shape, yearly instants interleave, no reverse-order tie — every IANA rule),
   for searched years at least one year inside the year guard (`*_rule_partial`).
FALSE for all accepted zones, hence the hypotheses: F1 (reverse order with a tie), F2 (overlapping
periods; `counterexample_F2`: the same valid instant is returned twice) and F5 (`counterexample_F5`: in
the outermost guarded year the search returns an instant the lookup refuses).
-/
import TzVerif.Model.Find
import TzVerif.Spec.Zone
import TzVerif.Proofs.Search
import TzVerif.Proofs.SearchRule
import TzVerif.Proofs.SpecSearch
import TzVerif.Proofs.SrcEqFind
import TzVerif.Generated.StableC05   -- per run: the current translation (SrcNow) equals the baseline (Src) these theorems are about

namespace TzVerif.C05
open TzVerif.Model TzVerif.Proofs

/-- each returned instant, converted back with the same zone, reproduces the searched fields' second
    count and the returned local time type -/
theorem results_show_the_local_time_partial (y mo d h mi s ns : Int) (z : TimeZone) (rs : List Found)
    (hz : ZoneOK z) (hr : NoDstRule z)
    (hf : findDateTime y mo d h mi s ns z = .ok rs) (x : DateTime) (hx : Found.normal x ∈ rs) :
    z.findLocalTimeType x.unixTime = .ok x.localTimeType ∧
    x.unixTime + x.localTimeType.utOffset = Spec.seconds y mo d h mi s :=
  search_sound y mo d h mi s ns z rs hz hr hf x hx

/-- no instant with that property is missing, for every instant of the i64 range -/
theorem no_instant_missing_partial (y mo d h mi s ns : Int) (z : TimeZone) (rs : List Found)
    (hz : ZoneOK z) (hr : NoDstRule z)
    (hf : findDateTime y mo d h mi s ns z = .ok rs) (u : Int) (t : LocalTimeType)
    (hu : i64Min ≤ u ∧ u ≤ i64Max)
    (hl : z.findLocalTimeType u = .ok t) (hc : u + t.utOffset = Spec.seconds y mo d h mi s) :
    ∃ x, Found.normal x ∈ rs ∧ x.unixTime = u ∧ x.localTimeType = t :=
  search_complete y mo d h mi s ns z rs hz hr hf u t hu hl hc

/-- … or duplicated (valid results strictly increase in time) -/
theorem no_duplicates_partial (y mo d h mi s ns : Int) (z : TimeZone) (rs : List Found)
    (hz : ZoneOK z) (hr : NoDstRule z) (hf : findDateTime y mo d h mi s ns z = .ok rs) :
    List.Pairwise (fun a b => a.unixTime < b.unixTime) (normalsOf rs) :=
  search_normals_strict y mo d h mi s ns z rs hz hr hf

/-- F2: an accepted rule with overlapping periods makes the search return the same instant twice -/
theorem counterexample_F2 :
    let std : LocalTimeType := { utOffset := 0, isDst := false, name := some [83, 84, 68] }
    let dst : LocalTimeType := { utOffset := 3600, isDst := true, name := some [68, 83, 84] }
    let a : AlternateTime := { std, dst, dstStart := .julian1 1, dstStartTime := -601200, dstEnd := .julian1 365, dstEndTime := 601200 }
    let x : DateTime := { year := 2021, month := 6, monthDay := 1, hour := 12, minute := 0, second := 0,
                          localTimeType := dst, unixTime := 1622545200, nanoseconds := 0 }
    AlternateTime.new std dst (.julian1 1) (-601200) (.julian1 365) 601200 = .ok a ∧
    findDateTime 2021 6 1 12 0 0 0
      { transitions := [], localTimeTypes := [std, dst], leapSeconds := [], extraRule := some (.alternate a) } =
        .ok [.normal x, .normal x] := by
  decide +kernel

/-! zones with a DST rule -/

theorem results_show_the_local_time_rule_partial (y mo d h mi s ns : Int) (z : TimeZone) (a : AlternateTime) (rs : List Found)
    (hz : ZoneOK z) (hr : z.extraRule = some (.alternate a)) (ha : RuleOK a)
    (hf : findDateTime y mo d h mi s ns z = .ok rs) (x : DateTime) (hx : Found.normal x ∈ rs)
    (hnn : 0 ≤ h ∧ 0 ≤ mi ∧ 0 ≤ s) (hy : i32Min + 3 ≤ y ∧ y ≤ i32Max - 3) :
    z.findLocalTimeType x.unixTime = .ok x.localTimeType ∧
    x.unixTime + x.localTimeType.utOffset = Spec.seconds y mo d h mi s :=
  rule_search_sound y mo d h mi s ns z a rs hz hr ha hf x hx hnn hy

theorem no_instant_missing_rule_partial (y mo d h mi s ns : Int) (z : TimeZone) (a : AlternateTime) (rs : List Found)
    (hz : ZoneOK z) (hr : z.extraRule = some (.alternate a)) (ha : RuleOK a)
    (hf : findDateTime y mo d h mi s ns z = .ok rs) (u : Int) (t : LocalTimeType)
    (hu : i64Min ≤ u ∧ u ≤ i64Max)
    (hl : z.findLocalTimeType u = .ok t) (hc : u + t.utOffset = Spec.seconds y mo d h mi s)
    (hnn : 0 ≤ h ∧ 0 ≤ mi ∧ 0 ≤ s) :
    ∃ x, Found.normal x ∈ rs ∧ x.unixTime = u ∧ x.localTimeType = t :=
  rule_search_complete y mo d h mi s ns z a rs hz hr ha hf u t hu hl hc hnn

theorem no_duplicates_rule_partial (y mo d h mi s ns : Int) (z : TimeZone) (a : AlternateTime) (rs : List Found)
    (hz : ZoneOK z) (hr : z.extraRule = some (.alternate a)) (ha : RuleOK a)
    (hf : findDateTime y mo d h mi s ns z = .ok rs) :
    List.Pairwise (fun p q => p.unixTime < q.unixTime) (normalsOf rs) :=
  rule_search_normals_strict y mo d h mi s ns z a rs hz hr ha hf

/-- F5: year i32::MAX − 2, 31 December 23:30 in `EST5EDT,M3.2.0,M11.1.0`: the search returns an instant
    (UTC year i32::MAX − 1) at which the forward lookup answers OutOfRange -/
theorem counterexample_F5 :
    let std : LocalTimeType := { utOffset := -18000, isDst := false, name := some [69, 83, 84] }
    let dst : LocalTimeType := { utOffset := -14400, isDst := true, name := some [69, 68, 84] }
    let a : AlternateTime := { std, dst, dstStart := .mwd 3 2 0, dstStartTime := 7200, dstEnd := .mwd 11 1 0, dstEndTime := 7200 }
    let z : TimeZone := { transitions := [], localTimeTypes := [std, dst], leapSeconds := [], extraRule := some (.alternate a) }
    let x : DateTime := { year := 2147483645, month := 12, monthDay := 31, hour := 23, minute := 30, second := 0,
                          localTimeType := std, unixTime := 67767976170477000, nanoseconds := 0 }
    AlternateTime.new std dst (.mwd 3 2 0) 7200 (.mwd 11 1 0) 7200 = .ok a ∧
    findDateTime 2147483645 12 31 23 30 0 0 z = .ok [.normal x] ∧
    z.findLocalTimeType x.unixTime = .error .outOfRange := by
  decide +kernel

/-- why `0 ≤ h, mi, s` (the unsigned Rust types) is a hypothesis: the model's integers are unbounded -/
theorem model_artifact_negative_hour :
    let std : LocalTimeType := { utOffset := -18000, isDst := false, name := some [69, 83, 84] }
    let dst : LocalTimeType := { utOffset := -14400, isDst := true, name := some [69, 68, 84] }
    let a : AlternateTime := { std, dst, dstStart := .mwd 3 2 0, dstStartTime := 7200, dstEnd := .mwd 11 1 0, dstEndTime := 7200 }
    let z : TimeZone := { transitions := [], localTimeTypes := [std, dst], leapSeconds := [], extraRule := some (.alternate a) }
    ∃ x, findDateTime 2021 1 1 (-14400) 0 0 0 z = .ok [.normal x] ∧ z.findLocalTimeType x.unixTime = .ok dst ∧ x.localTimeType = std := by
  refine ⟨{ year := 2021, month := 1, monthDay := 1, hour := -14400, minute := 0, second := 0,
            localTimeType := { utOffset := -18000, isDst := false, name := some [69, 83, 84] }, unixTime := 1557637200, nanoseconds := 0 }, ?_⟩
  decide +kernel

/-- The whole of C05 as ONE set equality against the executable specification the differential oracle uses:
    for every zone the constructor accepts whose rule (if any) meets C04's hypotheses, and searched fields of
    the Rust argument types with the year at least three inside the year guard, the valid results are exactly
    `Spec.validSet` — the instants c − offset(τ), τ a type of the zone, at which the *declarative* forward
    function `Spec.zoneExpect` (periods of C04, table of C03, leap scale of C12) answers τ. -/
theorem valid_results_are_the_spec_set (y mo d h mi s ns : Int) (z : TimeZone) (rs : List Found)
    (hz : ZoneGood z) (hfd : FieldsGood y mo d h mi s)
    (hf : findDateTime y mo d h mi s ns z = .ok rs) (u : Int) (t : LocalTimeType) :
    (u, t) ∈ Spec.validSet z (Spec.seconds y mo d h mi s) ↔
      ∃ x, Found.normal x ∈ rs ∧ x.unixTime = u ∧ x.localTimeType = t :=
  search_is_validSet y mo d h mi s ns z rs hz hfd hf u t

/-- membership in the spec set, spelled out -/
theorem spec_set_meaning (z : TimeZone) (c u : Int) (t : LocalTimeType) :
    (u, t) ∈ Spec.validSet z c ↔ (t ∈ Spec.zoneTypes z ∧ u = c - t.utOffset ∧ Spec.zoneExpect z u = .type t) :=
  validSet_mem_iff z c u t

/-! ### The same about the source text
`TzVerif.Src.find_date_time` is src/datetime/find.rs `find_date_time` translated to Lean on every run
(tools/rs2lean.py, DESIGN §13): both loops, the memoising `get_time` closure and every early return. It equals
the model's search, so every theorem of this file is about the code as it is now. -/

theorem translated_source_is_the_model (y mo d h mi s ns : Int) (z : TimeZone) :
    Src.find_date_time [] y mo d h mi s ns z = findDateTime y mo d h mi s ns z :=
  SrcEq.find_date_time_eq y mo d h mi s ns z

/-- `valid_results_are_the_spec_set` about the translated search -/
theorem valid_results_are_the_spec_set_src (y mo d h mi s ns : Int) (z : TimeZone) (rs : List Found)
    (hz : ZoneGood z) (hfd : FieldsGood y mo d h mi s)
    (hf : Src.find_date_time [] y mo d h mi s ns z = .ok rs) (u : Int) (t : LocalTimeType) :
    (u, t) ∈ Spec.validSet z (Spec.seconds y mo d h mi s) ↔
      ∃ x, Found.normal x ∈ rs ∧ x.unixTime = u ∧ x.localTimeType = t :=
  valid_results_are_the_spec_set y mo d h mi s ns z rs hz hfd (SrcEq.find_date_time_eq y mo d h mi s ns z ▸ hf) u t

end TzVerif.C05
