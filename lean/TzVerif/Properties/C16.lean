/-
C16  Total nanoseconds <-> (seconds, nanoseconds) conversion is exact and floor-based.
-/
import TzVerif.Model.TimeZone
import TzVerif.Spec.Calendar
import TzVerif.Proofs.SrcEqZone
import TzVerif.Proofs.SrcEqGetters
import TzVerif.Generated.StableC16   -- per run: the current translation (SrcNow) equals the baseline (Src) these theorems are about

namespace TzVerif.C16
open TzVerif.Model TzVerif.Gen

/-- The split is floor division by 10⁹: seconds rounded toward −∞, nanosecond part in [0, 999 999 999]
    (nanoseconds always count toward the future); refused exactly when the seconds leave i64. -/
theorem split_correct (n : Int) :
    totalNanosecondsToTimespec n =
      (if i64Min ≤ n / 1000000000 ∧ n / 1000000000 ≤ i64Max then .ok (n / 1000000000, n % 1000000000)
       else .error .outOfRange) := by
  unfold totalNanosecondsToTimespec tryIntoI64
  simp only [NANOSECONDS_PER_SECOND]
  by_cases h : i64Min ≤ n / 1000000000 ∧ n / 1000000000 ≤ i64Max <;> simp [h]

theorem split_range (n s r : Int) (h : totalNanosecondsToTimespec n = .ok (s, r)) :
    0 ≤ r ∧ r ≤ 999999999 ∧ s * 1000000000 + r = n ∧ (∀ s' r', 0 ≤ r' → r' < 1000000000 → s' * 1000000000 + r' = n → s' = s ∧ r' = r) := by
  rw [split_correct] at h
  split at h
  · injection h with h
    injection h with hs hr
    subst hs; subst hr
    refine ⟨by omega, by omega, by omega, ?_⟩
    intro s' r' h0 h1 h2
    omega
  · cases h

/-- Recombination is `s·10⁹ + r` … -/
theorem recombine (s r : Int) : nanosecondsSinceUnixEpoch s r = s * 1000000000 + r := by
  simp [nanosecondsSinceUnixEpoch, NANOSECONDS_PER_SECOND]

/-- … so splitting and recombining gives back exactly the original count. -/
theorem roundtrip (n s r : Int) (h : totalNanosecondsToTimespec n = .ok (s, r)) :
    nanosecondsSinceUnixEpoch s r = n := by
  rw [recombine]; exact (split_range n s r h).2.2.1

/-- and the pair of any (seconds, nanoseconds < 10⁹) is recovered from its total -/
theorem roundtrip' (s r : Int) (hs : i64Min ≤ s ∧ s ≤ i64Max) (hr : 0 ≤ r ∧ r < 1000000000) :
    totalNanosecondsToTimespec (nanosecondsSinceUnixEpoch s r) = .ok (s, r) := by
  rw [recombine, split_correct]
  have h1 : (s * 1000000000 + r) / 1000000000 = s := by omega
  have h2 : (s * 1000000000 + r) % 1000000000 = r := by omega
  rw [h1, h2]
  simp [hs.1, hs.2]

/-- The total fits i128 for every i64 seconds value and u32 nanoseconds (no overflow in the product). -/
theorem recombine_fits_i128 (s r : Int) (hs : i64Min ≤ s ∧ s ≤ i64Max) (hr : 0 ≤ r ∧ r ≤ 4294967295) :
    -(2 ^ 127) ≤ nanosecondsSinceUnixEpoch s r ∧ nanosecondsSinceUnixEpoch s r < 2 ^ 127 := by
  rw [recombine]
  simp only [i64Min, i64Max] at hs
  constructor <;> omega

/-- Date-times built from total nanoseconds equal those built from the (seconds, nanoseconds) pair. -/
theorem utc_from_total (n : Int) :
    UtcDateTime.fromTotalNanoseconds n =
      (if i64Min ≤ n / 1000000000 ∧ n / 1000000000 ≤ i64Max then UtcDateTime.fromTimespec (n / 1000000000) (n % 1000000000)
       else .error .outOfRange) := by
  unfold UtcDateTime.fromTotalNanoseconds
  rw [split_correct]
  by_cases h : i64Min ≤ n / 1000000000 ∧ n / 1000000000 ≤ i64Max <;> simp [h]

theorem dt_from_total_local (n : Int) (l : LocalTimeType) :
    DateTime.fromTotalNanosecondsAndLocal n l =
      (if i64Min ≤ n / 1000000000 ∧ n / 1000000000 ≤ i64Max then DateTime.fromTimespecAndLocal (n / 1000000000) (n % 1000000000) l
       else .error .outOfRange) := by
  unfold DateTime.fromTotalNanosecondsAndLocal
  rw [split_correct]
  by_cases h : i64Min ≤ n / 1000000000 ∧ n / 1000000000 ≤ i64Max <;> simp [h]

theorem dt_from_total_zone (n : Int) (z : TimeZone) :
    DateTime.fromTotalNanoseconds n z =
      (if i64Min ≤ n / 1000000000 ∧ n / 1000000000 ≤ i64Max then DateTime.fromTimespec (n / 1000000000) (n % 1000000000) z
       else .error .outOfRange) := by
  unfold DateTime.fromTotalNanoseconds
  rw [split_correct]
  by_cases h : i64Min ≤ n / 1000000000 ∧ n / 1000000000 ≤ i64Max <;> simp [h]

/-- Nanosecond arguments ≥ 10⁹ are refused wherever fields are validated (constructors and search). -/
theorem nanoseconds_refused (y mo d h mi s ns : Int) (hns : ns ≥ 1000000000) :
    (∃ e, checkDateTimeInputs y mo d h mi s ns = .error e) := by
  have hns' : ns ≥ NANOSECONDS_PER_SECOND := hns
  unfold checkDateTimeInputs
  split
  · exact ⟨_, rfl⟩
  split
  · exact ⟨_, rfl⟩
  split
  · exact ⟨_, rfl⟩
  split
  · exact ⟨_, rfl⟩
  split
  · exact ⟨_, rfl⟩
  exact ⟨_, rfl⟩

/-- non-vacuity: −1 ns is (−1 s, 999 999 999 ns) -/
example : totalNanosecondsToTimespec (-1) = .ok (-1, 999999999) := by decide

/-! ### The same about the source text
`TzVerif.Src.*` is the Rust source translated to Lean on every run (tools/rs2lean.py, DESIGN §13); the
equalities below tie every theorem of this file, which is about the model, to the code as it is now. -/

theorem translated_source_is_the_model :
    (∀ n, Src.total_nanoseconds_to_timespec n = totalNanosecondsToTimespec n) ∧
    (∀ s r, Src.nanoseconds_since_unix_epoch s r = nanosecondsSinceUnixEpoch s r) ∧
    (∀ n, Src.UtcDateTime.from_total_nanoseconds n = UtcDateTime.fromTotalNanoseconds n) ∧
    (∀ n l, Src.DateTime.from_total_nanoseconds_and_local n l = DateTime.fromTotalNanosecondsAndLocal n l) ∧
    (∀ n (z : TimeZone), Src.DateTime.from_total_nanoseconds n z = DateTime.fromTotalNanoseconds n z) ∧
    (∀ v, Src.try_into_i64 v = tryIntoI64 v) :=
  ⟨Proofs.SrcEq.total_nanoseconds_to_timespec_eq, Proofs.SrcEq.nanoseconds_since_unix_epoch_eq, Proofs.SrcEq.utc_from_total_nanoseconds_eq,
   Proofs.SrcEq.dt_from_total_nanoseconds_and_local_eq, Proofs.SrcEq.dt_from_total_nanoseconds_eq, Proofs.SrcEq.try_into_i64_eq⟩

theorem split_correct_src (n : Int) :
    Src.total_nanoseconds_to_timespec n =
      (if i64Min ≤ n / 1000000000 ∧ n / 1000000000 ≤ i64Max then .ok (n / 1000000000, n % 1000000000)
       else .error .outOfRange) := by
  rw [Proofs.SrcEq.total_nanoseconds_to_timespec_eq]; exact split_correct n

/-- the `total_nanoseconds()` getters as the source has them (generated by `impl_datetime!()`): seconds · 10⁹ +
nanoseconds, of the Unix time the value denotes -/
theorem total_nanoseconds_getters_src (c : UtcDateTime) (d : DateTime) :
    Src.UtcDateTime.total_nanoseconds c = c.unixTime * 1000000000 + c.nanoseconds ∧
    Src.DateTime.total_nanoseconds d = d.unixTime * 1000000000 + d.nanoseconds := by
  rw [Proofs.SrcEq.utc_total_nanoseconds_eq, Proofs.SrcEq.dt_total_nanoseconds_eq, recombine, recombine]
  exact ⟨rfl, rfl⟩

end TzVerif.C16
