/-
C09  POSIX TZ string decoding follows the grammar, its defaults and sign conventions.

`Spec/TzGrammar.lean` states the grammar three ways: a syntax tree (`TzAst`), a declarative
"is a sentence" relation with explicit concatenation (`Sentence ext b t`), and an executable reference
reader (`readTz`). `denoteParts` fixes the conventions (UTC offset = −(h:m:s), sign applied to the
whole; missing DST offset = one hour ahead; missing time = 02:00:00; `Jn`/`n`/`Mm.w.d`; hour limit 24,
or 167 with a sign only where extensions apply); `build` is the library's own `AlternateTime.new`
(characterised by C11).
-/
import TzVerif.Model.TzFile
import TzVerif.Spec.TzGrammar
import TzVerif.Proofs.TzReader
import TzVerif.Proofs.TzParse
import TzVerif.Proofs.SrcEqTzString
import TzVerif.Generated.StableC09   -- per run: the current translation (SrcNow) equals the baseline (Src) these theorems are about

namespace TzVerif.C09
open TzVerif.Model TzVerif.Proofs

/-- the reference reader accepts exactly the grammar (and the grammar is unambiguous) -/
theorem reader_is_grammar (ext : Bool) (b : Bytes) (t : Spec.TzAst) :
    Spec.readTz ext b = some t ↔ Spec.Sentence ext b t :=
  readTz_iff_sentence ext b t

/-- the code's parser = reference reader, then denotation, then the library's constructors -/
theorem parser_is_reference (ext : Bool) (b : Bytes) :
    okOf (parsePosixTz b ext) = (Spec.readTz ext b).bind (fun t => (Spec.denoteParts ext t).bind Spec.build) :=
  parsePosixTz_eq_reference ext b

/-- COMPLETE: every sentence is decoded to exactly the rule it denotes
    (or refused when the denoted values are out of range / the rule is inconsistent) -/
theorem parse_complete (ext : Bool) (b : Bytes) (t : Spec.TzAst) (h : Spec.Sentence ext b t) :
    okOf (parsePosixTz b ext) = (Spec.denoteParts ext t).bind Spec.build := by
  rw [parser_is_reference, (reader_is_grammar ext b t).mpr h]
  rfl

/-- SOUND: nothing outside the grammar is accepted (a DST name without rules, trailing bytes, a sign
    or an hour > 24 in a rule time without extensions, hour > 167 with them, an unterminated '<', …) -/
theorem parse_sound (ext : Bool) (b : Bytes) (r : TransitionRule) (h : parsePosixTz b ext = .ok r) :
    ∃ t p, Spec.Sentence ext b t ∧ Spec.denoteParts ext t = some p ∧ Spec.build p = some r := by
  have h1 : okOf (parsePosixTz b ext) = some r := by rw [h]; rfl
  rw [parser_is_reference] at h1
  cases hr : Spec.readTz ext b with
  | none => rw [hr] at h1; cases h1
  | some t =>
    rw [hr] at h1
    simp only [Option.bind_some] at h1
    cases hp : Spec.denoteParts ext t with
    | none => rw [hp] at h1; cases h1
    | some p =>
      rw [hp] at h1
      exact ⟨t, p, (reader_is_grammar ext b t).mp hr, hp, h1⟩

theorem ascii_only (ext : Bool) (b : Bytes) (r : TransitionRule) (h : parsePosixTz b ext = .ok r) :
    ∀ c ∈ b, c < 128 :=
  accepted_is_ascii ext b r h

/-- version-2/3 footers: NL · description · NL, extensions decided by the caller (version 3 only: C08) -/
theorem footer (footer : Bytes) (ext : Bool) (r : Option TransitionRule) :
    parseFooter footer ext = .ok r ↔
      (validUtf8 footer = true ∧ footer.length ≥ 2 ∧ footer.head? = some 10 ∧ footer.getLast? = some 10 ∧
       (trimAsciiWhitespace footer).head? ≠ some 58 ∧ 0 ∉ trimAsciiWhitespace footer ∧
       ((trimAsciiWhitespace footer = [] ∧ r = none) ∨
        (trimAsciiWhitespace footer ≠ [] ∧ ∃ x, r = some x ∧ parsePosixTz (trimAsciiWhitespace footer) ext = .ok x))) :=
  parseFooter_ok_iff footer ext r

/-- non-vacuity: "EST5EDT,M3.2.0,M11.1.0" is a sentence, read by the reference reader and decoded by the
    parser to the US eastern rule; a rule time of minus one hour is refused without extensions and accepted with them -/
def ascii (s : String) : Bytes := s.toList.map Char.toNat

example :
    (Spec.readTz false (ascii "EST5EDT,M3.2.0,M11.1.0")).isSome = true ∧
    (parsePosixTz (ascii "EST5EDT,M3.2.0,M11.1.0") false).isOk = true ∧
    (parsePosixTz (ascii "EST5EDT,M3.2.0/-1,M11.1.0") false).isOk = false ∧
    (parsePosixTz (ascii "EST5EDT,M3.2.0/-1,M11.1.0") true).isOk = true := by
  decide +kernel

/-! ### The same about the source text
`TzVerif.Src.parse_posix_tz` and its helpers are src/parse/tz_string.rs and src/parse/utils.rs translated to Lean on
every run (tools/rs2lean.py, DESIGN §13), the `&mut Cursor` threaded through every call. They equal the model's
parser, so the grammar theorems of this file are about the code as it is now. -/

theorem translated_source_is_the_model :
    (∀ s ext, Src.parse_posix_tz s ext = parsePosixTz s ext) ∧
    (∀ c ext, Src.parse_rule_block c ext = parseRuleBlock c ext) ∧
    (∀ c, Src.parse_rule_day c = parseRuleDay c) ∧
    (∀ c, Src.parse_rule_time c = parseRuleTime c) ∧ (∀ c, Src.parse_rule_time_extended c = parseRuleTimeExtended c) ∧
    (∀ c, Src.parse_offset c = parseOffset c) ∧ (∀ c, Src.parse_signed_hhmmss c = parseSignedHhmmss c) ∧
    (∀ c, Src.parse_hhmmss c = parseHhmmss c) ∧ (∀ c, Src.parse_time_zone_designation c = parseTimeZoneDesignation c) ∧
    (∀ c f, Src.read_while c f = .ok (readWhile c f)) ∧ (∀ c f, Src.read_until c f = .ok (readUntil c f)) ∧
    (∀ c (n : Nat), Src.read_exact c (n : Int) = readExact c n) :=
  ⟨SrcEq.parse_posix_tz_eq, SrcEq.parse_rule_block_eq, SrcEq.parse_rule_day_eq, SrcEq.parse_rule_time_eq,
   SrcEq.parse_rule_time_extended_eq, SrcEq.parse_offset_eq, SrcEq.parse_signed_hhmmss_eq, SrcEq.parse_hhmmss_eq,
   SrcEq.parse_time_zone_designation_eq, SrcEq.read_while_eq, SrcEq.read_until_eq, SrcEq.read_exact_eq⟩

/-- COMPLETE and SOUND, about the translated parser -/
theorem parse_complete_src (ext : Bool) (b : Bytes) (t : Spec.TzAst) (h : Spec.Sentence ext b t) :
    okOf (Src.parse_posix_tz b ext) = (Spec.denoteParts ext t).bind Spec.build := by
  rw [SrcEq.parse_posix_tz_eq]; exact parse_complete ext b t h

theorem parse_sound_src (ext : Bool) (b : Bytes) (r : TransitionRule) (h : Src.parse_posix_tz b ext = .ok r) :
    ∃ t p, Spec.Sentence ext b t ∧ Spec.denoteParts ext t = some p ∧ Spec.build p = some r :=
  parse_sound ext b r (SrcEq.parse_posix_tz_eq b ext ▸ h)

end TzVerif.C09
