/-
C17  Allocation-free search equals the allocating one for every buffer size.

`findDateTime` is the search (the sequence it pushes); `DateTime::find` returns that sequence,
`DateTime::find_n` pushes the same sequence into the caller's buffer (`findN`, `RefMut.push`).
-/
import TzVerif.Model.Find
import TzVerif.Proofs.Buffer
import TzVerif.Proofs.SrcEqFind
import TzVerif.Proofs.SrcEqList
import TzVerif.Proofs.SrcEqEntry
import TzVerif.Generated.StableC17   -- per run: the current translation (SrcNow) equals the baseline (Src) these theorems are about

namespace TzVerif.C17
open TzVerif.Model

/-- For ANY buffer (any stale content, any length n, including 0) and any pushed sequence `rs` of
    length k: the buffer ends as the first min(n,k) results followed by the untouched tail; the count
    is k; the reported data is exactly the first min(n,k) results in order; exhaustive iff n ≥ k. -/
theorem push_all (buf : List (Option Found)) (rs : List Found) :
    let r := rs.foldl RefMut.push (RefMut.new buf)
    r.buf = (rs.take buf.length).map some ++ buf.drop (min buf.length rs.length) ∧
    r.buf.length = buf.length ∧
    r.count = rs.length ∧
    r.data = (rs.take buf.length).map some ∧
    (r.isExhaustive = true ↔ buf.length ≥ rs.length) :=
  Proofs.foldl_push_spec buf rs

/-- slots beyond those reported are never touched -/
theorem tail_untouched (buf : List (Option Found)) (rs : List Found) (i : Nat)
    (hi : min buf.length rs.length ≤ i) (hi' : i < buf.length) :
    (rs.foldl RefMut.push (RefMut.new buf)).buf[i]? = buf[i]? :=
  Proofs.foldl_push_tail buf rs i hi hi'

/-- when exhaustive, unique / earliest / latest agree with the allocating search's -/
theorem accessors_agree (buf : List (Option Found)) (rs : List Found) (h : buf.length ≥ rs.length) :
    let r := rs.foldl RefMut.push (RefMut.new buf)
    r.unique = listUnique rs ∧ r.earliest = listEarliest rs ∧ r.latest = listLatest rs :=
  Proofs.foldl_push_accessors buf rs h

/-- both entry points run the same search, so they fail together with the same error,
    and on success `find_n` holds exactly the pushed sequence -/
theorem same_search (buf : List (Option Found)) (y mo d h mi s ns : Int) (z : TimeZone) :
    findN buf y mo d h mi s ns z =
      (match findDateTime y mo d h mi s ns z with
       | .error e => .error e
       | .ok rs => .ok (rs.foldl RefMut.push (RefMut.new buf))) := by
  unfold findN; rfl

/-- non-vacuity: a 1-slot stale buffer receiving two results -/
example :
    let a : Found := .normal default
    let r := [a, a].foldl RefMut.push (RefMut.new [none])
    r.count = 2 ∧ r.isExhaustive = false ∧ r.data = [some a] := by decide

/-! ### The same about the source text
`TzVerif.Src.find_date_time` is src/datetime/find.rs `find_date_time` translated to Lean on every run
(tools/rs2lean.py, DESIGN §13): both loops, the memoising `get_time` closure and every early return. It equals
the model's search, so every theorem of this file is about the code as it is now. -/

theorem translated_source_is_the_model (y mo d h mi s ns : Int) (z : TimeZone) :
    Src.find_date_time [] y mo d h mi s ns z = findDateTime y mo d h mi s ns z :=
  Proofs.SrcEq.find_date_time_eq y mo d h mi s ns z

/-- `same_search` with the translated search: both entry points hold exactly what the source's `find_date_time`
    pushes -/
theorem same_search_src (buf : List (Option Found)) (y mo d h mi s ns : Int) (z : TimeZone) :
    findN buf y mo d h mi s ns z =
      (match Src.find_date_time [] y mo d h mi s ns z with
       | .error e => .error e
       | .ok rs => .ok (rs.foldl RefMut.push (RefMut.new buf))) := by
  rw [Proofs.SrcEq.find_date_time_eq]; exact same_search buf y mo d h mi s ns z

/-- the two result containers of src/datetime/find.rs, translated (`&mut self` methods return the updated container
    next to their value), are the model's: constructor, `push` of both `DateTimeList` implementations, `data`,
    `count`, `is_exhaustive` and the three accessors of each -/
theorem translated_containers_are_the_model :
    (∀ buf, Src.FoundDateTimeListRefMut.new buf = RefMut.new buf) ∧
    (∀ r f, Src.FoundDateTimeListRefMut.push r f = ((), RefMut.push r f)) ∧
    (∀ l f, Src.FoundDateTimeList.push l f = ((), l ++ [f])) ∧
    (∀ r, Src.FoundDateTimeListRefMut.data r = RefMut.data r) ∧
    (∀ r : RefMut, Src.FoundDateTimeListRefMut.count r = (r.count : Int)) ∧
    (∀ r, Src.FoundDateTimeListRefMut.is_exhaustive r = RefMut.isExhaustive r) ∧
    (∀ r, Src.FoundDateTimeListRefMut.unique r = RefMut.unique r) ∧
    (∀ r, Src.FoundDateTimeListRefMut.earliest r = RefMut.earliest r) ∧
    (∀ r, Src.FoundDateTimeListRefMut.latest r = RefMut.latest r) ∧
    (∀ l, Src.FoundDateTimeList.unique l = listUnique l) ∧
    (∀ l, Src.FoundDateTimeList.earliest l = listEarliest l) ∧
    (∀ l, Src.FoundDateTimeList.latest l = listLatest l) :=
  ⟨Proofs.SrcEq.refmut_new_eq, Proofs.SrcEq.refmut_push_eq, Proofs.SrcEq.list_push_eq, Proofs.SrcEq.refmut_data_eq,
   Proofs.SrcEq.refmut_count_eq, Proofs.SrcEq.refmut_is_exhaustive_eq, Proofs.SrcEq.refmut_unique_eq,
   Proofs.SrcEq.refmut_earliest_eq, Proofs.SrcEq.refmut_latest_eq, Proofs.SrcEq.list_unique_eq,
   Proofs.SrcEq.list_earliest_eq, Proofs.SrcEq.list_latest_eq⟩

/-- `push_all` about the translated container: pushing any sequence with the source's `push` into a wrapper made by
    the source's `new`, then reading it with the source's `data` / `count` / `is_exhaustive` -/
theorem push_all_src (buf : List (Option Found)) (rs : List Found) :
    let r := rs.foldl (fun acc f => (Src.FoundDateTimeListRefMut.push acc f).2) (Src.FoundDateTimeListRefMut.new buf)
    r.buf = (rs.take buf.length).map some ++ buf.drop (min buf.length rs.length) ∧
    r.buf.length = buf.length ∧
    Src.FoundDateTimeListRefMut.count r = (rs.length : Int) ∧
    Src.FoundDateTimeListRefMut.data r = (rs.take buf.length).map some ∧
    (Src.FoundDateTimeListRefMut.is_exhaustive r = true ↔ buf.length ≥ rs.length) := by
  intro r
  have hr : r = rs.foldl RefMut.push (RefMut.new buf) := by
    show rs.foldl _ (Src.FoundDateTimeListRefMut.new buf) = _
    rw [Proofs.SrcEq.refmut_new_eq, Proofs.SrcEq.refmut_pushes_eq]
  have h := push_all buf rs
  simp only [Proofs.SrcEq.refmut_count_eq, Proofs.SrcEq.refmut_data_eq, Proofs.SrcEq.refmut_is_exhaustive_eq, hr]
  refine ⟨h.1, h.2.1, ?_, h.2.2.2.1, h.2.2.2.2⟩
  rw [h.2.2.1]

/-- `accessors_agree` about the translated containers: when the buffer is large enough, the wrapper's accessors
    return what the allocating list's accessors return on the same pushed sequence -/
theorem accessors_agree_src (buf : List (Option Found)) (rs : List Found) (h : buf.length ≥ rs.length) :
    let r := rs.foldl (fun acc f => (Src.FoundDateTimeListRefMut.push acc f).2) (Src.FoundDateTimeListRefMut.new buf)
    let l := rs.foldl (fun acc f => (Src.FoundDateTimeList.push acc f).2) []
    l = rs ∧
    Src.FoundDateTimeListRefMut.unique r = Src.FoundDateTimeList.unique l ∧
    Src.FoundDateTimeListRefMut.earliest r = Src.FoundDateTimeList.earliest l ∧
    Src.FoundDateTimeListRefMut.latest r = Src.FoundDateTimeList.latest l := by
  intro r l
  have hr : r = rs.foldl RefMut.push (RefMut.new buf) := by
    show rs.foldl _ (Src.FoundDateTimeListRefMut.new buf) = _
    rw [Proofs.SrcEq.refmut_new_eq, Proofs.SrcEq.refmut_pushes_eq]
  have hl : l = rs := by
    show rs.foldl _ [] = rs
    have := Proofs.SrcEq.list_pushes_eq rs []
    simpa using this
  have ha := accessors_agree buf rs h
  simp only [Proofs.SrcEq.refmut_unique_eq, Proofs.SrcEq.refmut_earliest_eq, Proofs.SrcEq.refmut_latest_eq,
    Proofs.SrcEq.list_unique_eq, Proofs.SrcEq.list_earliest_eq, Proofs.SrcEq.list_latest_eq, hr, hl]
  exact ⟨trivial, ha.1, ha.2.1, ha.2.2⟩

/-- the two entry points themselves, translated (src/datetime/mod.rs `DateTime::find`, `DateTime::find_n`): for every
    buffer, every searched date-time and every zone they fail together with the same error, and on success `find_n`
    holds the sequence `find` returns pushed into the buffer — so `push_all` and `accessors_agree` are statements
    about what the two public functions return -/
theorem both_entry_points_src (buf : List (Option Found)) (y mo d h mi s ns : Int) (z : TimeZone) :
    Src.DateTime.find_n buf y mo d h mi s ns z =
      (match Src.DateTime.find y mo d h mi s ns z with
       | .error e => .error e
       | .ok rs => .ok (rs.foldl RefMut.push (RefMut.new buf))) := by
  rw [Proofs.SrcEq.find_n_eq, Proofs.SrcEq.find_eq]; exact same_search buf y mo d h mi s ns z

theorem translated_entry_points_are_the_model :
    (∀ y mo d h mi s ns z, Src.DateTime.find y mo d h mi s ns z = findDateTime y mo d h mi s ns z) ∧
    (∀ buf y mo d h mi s ns z, Src.DateTime.find_n buf y mo d h mi s ns z = findN buf y mo d h mi s ns z) :=
  ⟨Proofs.SrcEq.find_eq, Proofs.SrcEq.find_n_eq⟩

end TzVerif.C17
