/-
C17  Allocation-free search equals the allocating one for every buffer size.

`findDateTime` is the search (the sequence it pushes); `DateTime::find` returns that sequence,
`DateTime::find_n` pushes the same sequence into the caller's buffer (`findN`, `RefMut.push`).
-/
import TzVerif.Model.Find
import TzVerif.Proofs.Buffer
import TzVerif.Proofs.SrcEqFind

namespace TzVerif.C17
open TzVerif.Model

/-- For ANY buffer (any stale content, any length n, including 0) and any pushed sequence `rs` of
    length k: the buffer ends as the first min(n,k) results followed by the untouched tail; the count
    is k; the reported data is exactly the first min(n,k) results in order; exhaustive iff n ≥ k. -/
theorem push_all (buf : List (Option Found)) (rs : List Found) :
    let r := rs.foldl RefMut.push (RefMut.new buf)
    r.buf = (rs.take buf.length).map some ++ buf.drop (min buf.length rs.length) ∧
    r.buf.length = buf.length ∧
    r.count = rs.length ∧
    r.data = (rs.take buf.length).map some ∧
    (r.isExhaustive = true ↔ buf.length ≥ rs.length) :=
  Proofs.foldl_push_spec buf rs

/-- slots beyond those reported are never touched -/
theorem tail_untouched (buf : List (Option Found)) (rs : List Found) (i : Nat)
    (hi : min buf.length rs.length ≤ i) (hi' : i < buf.length) :
    (rs.foldl RefMut.push (RefMut.new buf)).buf[i]? = buf[i]? :=
  Proofs.foldl_push_tail buf rs i hi hi'

/-- when exhaustive, unique / earliest / latest agree with the allocating search's -/
theorem accessors_agree (buf : List (Option Found)) (rs : List Found) (h : buf.length ≥ rs.length) :
    let r := rs.foldl RefMut.push (RefMut.new buf)
    r.unique = listUnique rs ∧ r.earliest = listEarliest rs ∧ r.latest = listLatest rs :=
  Proofs.foldl_push_accessors buf rs h

/-- both entry points run the same search, so they fail together with the same error,
    and on success `find_n` holds exactly the pushed sequence -/
theorem same_search (buf : List (Option Found)) (y mo d h mi s ns : Int) (z : TimeZone) :
    findN buf y mo d h mi s ns z =
      (match findDateTime y mo d h mi s ns z with
       | .error e => .error e
       | .ok rs => .ok (rs.foldl RefMut.push (RefMut.new buf))) := by
  unfold findN; rfl

/-- non-vacuity: a 1-slot stale buffer receiving two results -/
example :
    let a : Found := .normal default
    let r := [a, a].foldl RefMut.push (RefMut.new [none])
    r.count = 2 ∧ r.isExhaustive = false ∧ r.data = [some a] := by decide

/-! ### The same about the source text
`TzVerif.Src.find_date_time` is src/datetime/find.rs `find_date_time` translated to Lean on every run
(tools/rs2lean.py, DESIGN §13): both loops, the memoising `get_time` closure and every early return. It equals
the model's search, so every theorem of this file is about the code as it is now. -/

theorem translated_source_is_the_model (y mo d h mi s ns : Int) (z : TimeZone) :
    Src.find_date_time [] y mo d h mi s ns z = findDateTime y mo d h mi s ns z :=
  Proofs.SrcEq.find_date_time_eq y mo d h mi s ns z

/-- `same_search` with the translated search: both entry points hold exactly what the source's `find_date_time`
    pushes (the two `DateTimeList` containers themselves are modelled, not translated) -/
theorem same_search_src (buf : List (Option Found)) (y mo d h mi s ns : Int) (z : TimeZone) :
    findN buf y mo d h mi s ns z =
      (match Src.find_date_time [] y mo d h mi s ns z with
       | .error e => .error e
       | .ok rs => .ok (rs.foldl RefMut.push (RefMut.new buf))) := by
  rw [Proofs.SrcEq.find_date_time_eq]; exact same_search buf y mo d h mi s ns z

end TzVerif.C17
