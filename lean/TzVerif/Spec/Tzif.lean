/-
Spec layer: an independent TZif *writer* (RFC 8536). Decoding what it writes must give back the zone.

The parameter space is the whole accepted layout, stated openly: the 15 reserved header bytes are
arbitrary; designations are an explicit table plus one index per type (so strings may be shared or
overlap); the isstd / isut vectors are explicit (empty or one byte per type); for versions 2 and 3 the
32-bit block in front is *arbitrary bytes of a well-sized block* (`v1`), and the footer is NL · text · NL.
-/
import TzVerif.Model.TzFile

namespace TzVerif.Spec
open TzVerif.Model

/-- big-endian two's-complement encoding of `v` on `n` bytes -/
def beBytes (n : Nat) (v : Int) : Bytes :=
  let u : Nat := (v % (2 ^ (8 * n) : Int)).toNat
  (List.range n).map (fun i => (u / 256 ^ (n - 1 - i)) % 256)

def be32u (v : Nat) : Bytes := beBytes 4 v

structure Layout where
  /-- version byte of the governing header: 0, 50 ('2') or 51 ('3') -/
  versionByte : Nat
  reserved : Bytes
  designations : Bytes
  /-- designation index of each local time type -/
  index : List Nat
  isstd : Bytes
  isut : Bytes
  deriving Repr

/-- the NUL-terminated string of `table` starting at `i` -/
def cstrAt (table : Bytes) (i : Nat) : Bytes := (table.drop i).takeWhile (· != 0)

def encodeType (t : LocalTimeType) (idx : Nat) : Bytes :=
  beBytes 4 t.utOffset ++ [if t.isDst then 1 else 0, idx]

/-- header + data block with `timeSize`-byte times -/
def encodeBlock (timeSize : Nat) (z : TimeZone) (l : Layout) : Bytes :=
  [84, 90, 105, 102, l.versionByte] ++ l.reserved ++
  be32u l.isut.length ++ be32u l.isstd.length ++ be32u z.leapSeconds.length ++
  be32u z.transitions.length ++ be32u z.localTimeTypes.length ++ be32u l.designations.length ++
  (z.transitions.flatMap (fun t => beBytes timeSize t.unixLeapTime)) ++
  (z.transitions.map (fun t => t.localTimeTypeIndex)) ++
  ((z.localTimeTypes.zip l.index).flatMap (fun p => encodeType p.1 p.2)) ++
  l.designations ++
  (z.leapSeconds.flatMap (fun x => beBytes timeSize x.unixLeapTime ++ beBytes 4 x.correction)) ++
  l.isstd ++ l.isut

/-- the layout fits the zone and the format -/
def LayoutOK (z : TimeZone) (l : Layout) : Prop :=
  l.reserved.length = 15 ∧ (∀ b ∈ l.reserved, b < 256) ∧
  z.localTimeTypes ≠ [] ∧ z.localTimeTypes.length < 2 ^ 32 ∧ z.transitions.length < 2 ^ 32 ∧ z.leapSeconds.length < 2 ^ 32 ∧
  l.designations ≠ [] ∧ l.designations.length < 2 ^ 32 ∧ (∀ b ∈ l.designations, b < 256) ∧
  l.index.length = z.localTimeTypes.length ∧
  (∀ i, i < z.localTimeTypes.length →
      l.index.getD i 0 < l.designations.length ∧ l.index.getD i 0 < 256 ∧
      0 ∈ l.designations.drop (l.index.getD i 0) ∧
      (z.localTimeTypes.getD i default).name =
        (if cstrAt l.designations (l.index.getD i 0) = [] then none else some (cstrAt l.designations (l.index.getD i 0)))) ∧
  (l.isstd = [] ∨ l.isstd.length = z.localTimeTypes.length) ∧ (l.isut = [] ∨ l.isut.length = z.localTimeTypes.length) ∧
  (∀ i, i < z.localTimeTypes.length →
      let s := l.isstd.getD i 0; let u := l.isut.getD i 0
      (s = 0 ∧ u = 0) ∨ (s = 1 ∧ u = 0) ∨ (s = 1 ∧ u = 1)) ∧
  (∀ t ∈ z.transitions, t.localTimeTypeIndex < 256) ∧
  (∀ t ∈ z.localTimeTypes, i32Min ≤ t.utOffset ∧ t.utOffset ≤ i32Max) ∧
  (∀ x ∈ z.leapSeconds, i32Min ≤ x.correction ∧ x.correction ≤ i32Max)

def TimesFit (bits : Nat) (z : TimeZone) : Prop :=
  (∀ t ∈ z.transitions, -(2 ^ (bits - 1) : Int) ≤ t.unixLeapTime ∧ t.unixLeapTime < 2 ^ (bits - 1)) ∧
  (∀ x ∈ z.leapSeconds, -(2 ^ (bits - 1) : Int) ≤ x.unixLeapTime ∧ x.unixLeapTime < 2 ^ (bits - 1))

/-- version 1 file: one block with 32-bit times, nothing after it -/
def encodeV1 (z : TimeZone) (l : Layout) : Bytes := encodeBlock 4 z l

/-- a well-sized (otherwise arbitrary) 32-bit block: a header with supported version byte and
    consistent counts followed by exactly the bytes its counts announce -/
def V1BlockOK (v1 : Bytes) : Prop :=
  ∃ h rest blocks, parseHeader v1 = .ok (h, rest) ∧ h.version ≠ 1 ∧ readDataBlocks 4 rest h = .ok (blocks, [])

/-- version 2/3 file: arbitrary well-sized 32-bit block, the 64-bit block, NL footer NL -/
def encodeV2 (v1 : Bytes) (z : TimeZone) (l : Layout) (footerText : Bytes) : Bytes :=
  v1 ++ encodeBlock 8 z l ++ [10] ++ footerText ++ [10]

end TzVerif.Spec
