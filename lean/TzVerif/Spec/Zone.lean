/-
Spec layer: leap-second scale and table semantics, independent of the code's algorithms
(no binary search, no running estimate: "the last record before …", "the last transition at or before …").
-/
import TzVerif.Model.TimeZone

namespace TzVerif.Spec
open TzVerif.Model

/-- correction in force just before count `T`: that of the last record with time `< T` (0 if none) -/
def corrBefore (ls : List LeapSecond) (T : Int) : Int :=
  match (ls.filter (fun l => l.unixLeapTime < T)).getLast? with
  | none => 0
  | some l => l.correction

/-- the UTC instant denoted by count `T` -/
def toUtc (ls : List LeapSecond) (T : Int) : Int := T - corrBefore ls T

/-- successive records: at least 28 days − 1 s apart, corrections differing by exactly ±1 -/
def LeapStepsOK : List LeapSecond → Prop
  | [] => True
  | [_] => True
  | a :: b :: rest =>
    b.unixLeapTime - a.unixLeapTime ≥ 2419199 ∧
    (b.correction - a.correction = 1 ∨ b.correction - a.correction = -1) ∧ LeapStepsOK (b :: rest)

/-- a valid leap-second table as the property states it -/
def LeapWF (ls : List LeapSecond) : Prop :=
  (match ls with
   | [] => True
   | l :: _ => l.unixLeapTime ≥ 0 ∧ (l.correction = 1 ∨ l.correction = -1)) ∧ LeapStepsOK ls

/-- the values are representable in the Rust types (i64 times, i32 corrections) -/
def LeapInRange (ls : List LeapSecond) : Prop :=
  ∀ l ∈ ls, i64Min ≤ l.unixLeapTime ∧ l.unixLeapTime ≤ i64Max ∧ i32Min ≤ l.correction ∧ l.correction ≤ i32Max

/-- UTC instants that no count denotes (removed by a negative leap second) -/
def Deleted (ls : List LeapSecond) (u : Int) : Prop := ¬ ∃ T, toUtc ls T = u

def StrictlyIncreasing : List Transition → Prop
  | [] => True
  | [_] => True
  | a :: b :: rest => a.unixLeapTime < b.unixLeapTime ∧ StrictlyIncreasing (b :: rest)

/-- the latest transition at or before count `L` -/
def lastAtOrBefore (ts : List Transition) (L : Int) : Option Transition :=
  (ts.filter (fun t => t.unixLeapTime ≤ L)).getLast?

/-- index of the local time type in force at count `L`: that of the latest transition ≤ L,
    the zone's first type before the first transition -/
def typeIndexAt (ts : List Transition) (L : Int) : Nat :=
  match lastAtOrBefore ts L with
  | none => 0
  | some t => t.localTimeTypeIndex

def IndexesOK (z : TimeZone) : Prop := ∀ t ∈ z.transitions, t.localTimeTypeIndex < z.localTimeTypes.length

/-- the trailing rule prescribes, at the last transition's instant, exactly the last transition's type -/
def RuleConsistent (z : TimeZone) : Prop :=
  match z.extraRule, z.transitions.getLast? with
  | some r, some last =>
    ∃ ut rt, unixLeapTimeToUnixTime z.leapSeconds last.unixLeapTime = .ok ut ∧ r.findLocalTimeType ut = .ok rt ∧
      rt = z.localTimeTypes.getD last.localTimeTypeIndex default
  | _, _ => True

/-- the well-formed zones of property C13 -/
def WFZone (z : TimeZone) : Prop :=
  z.localTimeTypes ≠ [] ∧ IndexesOK z ∧ StrictlyIncreasing z.transitions ∧ LeapWF z.leapSeconds ∧ RuleConsistent z

end TzVerif.Spec
