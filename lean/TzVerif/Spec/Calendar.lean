/-
Spec layer: the proleptic Gregorian calendar, written independently of the code's algorithms.

The one calendar fact taken as given is that 1970-01-01 is day 0 and a Thursday. Everything else is
characterised by recurrences (`daysBeforeYear_succ`, `daysBeforeMonth_succ`) that are proved below,
so the closed forms used for computing cannot drift from "add the length of each year / month".
-/
namespace TzVerif.Spec

/-- Gregorian leap-year rule -/
def isLeap (y : Int) : Bool := y % 4 == 0 && (y % 100 != 0 || y % 400 == 0)

def yearLen (y : Int) : Int := if isLeap y then 366 else 365

/-- number of days of month `m` (1..12) of year `y`; 0 for anything else -/
def monthLen (y m : Int) : Int :=
  if m = 1 then 31 else if m = 2 then (if isLeap y then 29 else 28) else if m = 3 then 31
  else if m = 4 then 30 else if m = 5 then 31 else if m = 6 then 30 else if m = 7 then 31
  else if m = 8 then 31 else if m = 9 then 30 else if m = 10 then 31 else if m = 11 then 30
  else if m = 12 then 31 else 0

/-- days from 1970-01-01 to January 1 of year `y` (closed form; `/` is floor division) -/
def daysBeforeYear (y : Int) : Int :=
  365 * (y - 1970) + ((y - 1) / 4 - (y - 1) / 100 + (y - 1) / 400) - 477

/-- days from January 1 of year `y` to the first of month `m` -/
def daysBeforeMonth (y m : Int) : Int :=
  let c : Int :=
    if m = 1 then 0 else if m = 2 then 31 else if m = 3 then 59 else if m = 4 then 90
    else if m = 5 then 120 else if m = 6 then 151 else if m = 7 then 181 else if m = 8 then 212
    else if m = 9 then 243 else if m = 10 then 273 else if m = 11 then 304 else if m = 12 then 334 else 365
  c + (if m ≥ 3 && isLeap y then 1 else 0)

/-- day number of the civil date (days since 1970-01-01); total, so 32 December is 1 January -/
def dayNumber (y m d : Int) : Int := daysBeforeYear y + daysBeforeMonth y m + (d - 1)

def ValidDate (y m d : Int) : Prop := 1 ≤ m ∧ m ≤ 12 ∧ 1 ≤ d ∧ d ≤ monthLen y m

instance (y m d : Int) : Decidable (ValidDate y m d) := by unfold ValidDate; infer_instance

/-- time of day with the leap second allowed -/
def ValidTime (h mi s : Int) : Prop := 0 ≤ h ∧ h ≤ 23 ∧ 0 ≤ mi ∧ mi ≤ 59 ∧ 0 ≤ s ∧ s ≤ 60

instance (h mi s : Int) : Decidable (ValidTime h mi s) := by unfold ValidTime; infer_instance

/-- the count of non-leap seconds since 1970-01-01T00:00:00Z denoted by the fields
    (second 60 is second 0 of the next minute because the expression is linear) -/
def seconds (y m d h mi s : Int) : Int := 86400 * dayNumber y m d + 3600 * h + 60 * mi + s

/-- days since Sunday of a day number (1970-01-01 was a Thursday) -/
def weekdayOfDay (n : Int) : Int := (4 + n) % 7

/-- lexicographic order on calendar fields -/
def lexLt : List Int → List Int → Prop
  | a :: as, b :: bs => a < b ∨ (a = b ∧ lexLt as bs)
  | _, _ => False

/-! ### The closed forms satisfy the defining recurrences -/

theorem daysBeforeYear_epoch : daysBeforeYear 1970 = 0 := by decide

theorem daysBeforeYear_succ (y : Int) : daysBeforeYear (y + 1) = daysBeforeYear y + yearLen y := by
  unfold daysBeforeYear yearLen isLeap
  have e : y + 1 - 1 = y := by omega
  rw [e]
  simp only [Bool.and_eq_true, Bool.or_eq_true, beq_iff_eq, bne_iff_ne]
  split <;> omega

theorem daysBeforeMonth_first (y : Int) : daysBeforeMonth y 1 = 0 := by
  simp [daysBeforeMonth]

theorem daysBeforeMonth_succ (y m : Int) (h1 : 1 ≤ m) (h2 : m ≤ 12) :
    daysBeforeMonth y (m + 1) = daysBeforeMonth y m + monthLen y m := by
  have : m = 1 ∨ m = 2 ∨ m = 3 ∨ m = 4 ∨ m = 5 ∨ m = 6 ∨ m = 7 ∨ m = 8 ∨ m = 9 ∨ m = 10 ∨ m = 11 ∨ m = 12 := by omega
  rcases this with h | h | h | h | h | h | h | h | h | h | h | h <;> subst h <;>
    simp [daysBeforeMonth, monthLen] <;> split <;> simp

/-- a year's months add up to the year -/
theorem daysBeforeMonth_end (y : Int) : daysBeforeMonth y 13 = yearLen y := by
  simp [daysBeforeMonth, yearLen]; split <;> simp

end TzVerif.Spec
