/-
Spec layer: the POSIX TZ description grammar of C09, as an abstract syntax, an inductive "is a
sentence" relation with explicit concatenation, a denotation, and an executable reference reader.

  tz      := name offset [ name [offset] "," rule "," rule ]
  name    := alpha{1,}  |  "<" (any byte except ">")* ">"              (validity of the name: `denote`)
  offset  := ["+"|"-"] hms
  hms     := num [ ":" num [ ":" num ] ]
  rule    := day [ "/" time ]
  day     := "J" num | num | "M" num "." num "." num
  time    := hms                      without extensions
           | ["+"|"-"] hms            with extensions (RFC 8536 §3.3.1, version-3 footers)
  num     := digit{1,}                (any number of leading zeros)

Conventions fixed by `denote`: UTC offset = −(h:m:s) with the sign applied to the whole; a missing DST
offset is one hour ahead of standard time; a missing time is 02:00:00; hours ≤ 24 (offsets and plain
times) or ≤ 167 (extended times), minutes and seconds ≤ 59; `Jn` 1–365, `n` 0–365, `Mm.w.d` with
m 1–12, w 1–5, d 0–6; names are 3–7 characters of [A-Za-z0-9+-].
-/
import TzVerif.Model.TzString
import TzVerif.Spec.Rule

namespace TzVerif.Spec
open TzVerif.Model

structure Hms where
  h : Nat
  m : Nat
  s : Nat
  deriving DecidableEq, Repr

/-- sign: `none` = absent, `some false` = '+', `some true` = '-' -/
structure Signed where
  sign : Option Bool
  hms : Hms
  deriving DecidableEq, Repr

inductive DayAst where
  | j (n : Nat)
  | z (n : Nat)
  | m (month week weekDay : Nat)
  deriving DecidableEq, Repr

structure RuleAst where
  day : DayAst
  time : Option Signed
  deriving DecidableEq, Repr

structure DstAst where
  name : Bytes
  offset : Option Signed
  start : RuleAst
  stop : RuleAst
  deriving DecidableEq, Repr

structure TzAst where
  name : Bytes
  offset : Signed
  dst : Option DstAst
  deriving DecidableEq, Repr

/-! ### Spellings (the concrete syntax of each node) -/

def IsNum (b : Bytes) (v : Nat) : Prop := b ≠ [] ∧ (∀ c ∈ b, isAsciiDigit c = true) ∧ digitsValue b = v

/-- `b` spells the name `n`: a non-empty alphabetic run, or anything without '>' between '<' and '>' -/
def IsName (b n : Bytes) : Prop :=
  (b = n ∧ n ≠ [] ∧ (∀ c ∈ n, isAsciiAlphabetic c = true)) ∨ (b = [60] ++ n ++ [62] ∧ ∀ c ∈ n, c ≠ 62)

def IsHms (b : Bytes) (x : Hms) : Prop :=
  (∃ bh, b = bh ∧ IsNum bh x.h ∧ x.m = 0 ∧ x.s = 0) ∨
  (∃ bh bm, b = bh ++ [58] ++ bm ∧ IsNum bh x.h ∧ IsNum bm x.m ∧ x.s = 0) ∨
  (∃ bh bm bs, b = bh ++ [58] ++ bm ++ [58] ++ bs ∧ IsNum bh x.h ∧ IsNum bm x.m ∧ IsNum bs x.s)

def IsSigned (b : Bytes) (x : Signed) : Prop :=
  (x.sign = none ∧ IsHms b x.hms) ∨ (∃ r, x.sign = some false ∧ b = 43 :: r ∧ IsHms r x.hms) ∨
  (∃ r, x.sign = some true ∧ b = 45 :: r ∧ IsHms r x.hms)

def IsDay (b : Bytes) : DayAst → Prop
  | .j n => ∃ r, b = 74 :: r ∧ IsNum r n
  | .z n => IsNum b n
  | .m mo w d => ∃ b1 b2 b3, b = [77] ++ b1 ++ [46] ++ b2 ++ [46] ++ b3 ∧ IsNum b1 mo ∧ IsNum b2 w ∧ IsNum b3 d

/-- a rule block; without extensions the time carries no sign -/
def IsRule (ext : Bool) (b : Bytes) (x : RuleAst) : Prop :=
  (x.time = none ∧ IsDay b x.day) ∨
  (∃ bd bt t, x.time = some t ∧ b = bd ++ [47] ++ bt ∧ IsDay bd x.day ∧ IsSigned bt t ∧ (ext = false → t.sign = none))

/-- `b` is a sentence of the grammar with syntax tree `t` -/
def Sentence (ext : Bool) (b : Bytes) (t : TzAst) : Prop :=
  ∃ bn bo, IsName bn t.name ∧ IsSigned bo t.offset ∧
    ((t.dst = none ∧ b = bn ++ bo) ∨
     (∃ d bdn bdo b1 b2, t.dst = some d ∧ b = bn ++ bo ++ bdn ++ bdo ++ [44] ++ b1 ++ [44] ++ b2 ∧
        IsName bdn d.name ∧
        ((d.offset = none ∧ bdo = []) ∨ (∃ o, d.offset = some o ∧ IsSigned bdo o)) ∧
        IsRule ext b1 d.start ∧ IsRule ext b2 d.stop))

/-! ### Denotation -/

def nameValid (n : Bytes) : Bool :=
  decide (3 ≤ n.length ∧ n.length ≤ 7) &&
  n.all (fun b => (48 ≤ b && b ≤ 57) || (65 ≤ b && b ≤ 90) || (97 ≤ b && b ≤ 122) || b == 43 || b == 45)

def hmsSeconds (x : Hms) : Int := x.h * 3600 + x.m * 60 + x.s

def signedSeconds (x : Signed) : Int := if x.sign = some true then -hmsSeconds x.hms else hmsSeconds x.hms

def hmsOk (hmax : Nat) (x : Hms) : Bool := decide (x.h ≤ hmax ∧ x.m ≤ 59 ∧ x.s ≤ 59)

def dayOk : DayAst → Bool
  | .j n => decide (1 ≤ n ∧ n ≤ 365)
  | .z n => decide (n ≤ 365)
  | .m mo w d => decide (1 ≤ mo ∧ mo ≤ 12 ∧ 1 ≤ w ∧ w ≤ 5 ∧ d ≤ 6)

def dayDenote : DayAst → RuleDay
  | .j n => .julian1 n
  | .z n => .julian0 n
  | .m mo w d => .mwd mo w d

def ruleTimeOk (ext : Bool) : Option Signed → Bool
  | none => true
  | some t => hmsOk (if ext then 167 else 24) t.hms && (ext || t.sign.isNone)

def ruleTime : Option Signed → Int
  | none => 7200
  | some t => signedSeconds t

/-- the parts a syntax tree denotes, before the constructors of the library are applied -/
inductive Parts where
  | fixed (std : LocalTimeType)
  | alternate (std dst : LocalTimeType) (start : RuleDay) (startTime : Int) (stop : RuleDay) (stopTime : Int)
  deriving DecidableEq, Repr

/-- The parts a syntax tree denotes; `none` when a numeric field is out of its range or a name is not
    3–7 characters of the alphabet. Conventions: UTC offset = −(h:m:s), sign applied to the whole;
    missing DST offset = one hour ahead of standard; missing time = 02:00:00. -/
def denoteParts (ext : Bool) (t : TzAst) : Option Parts :=
  if !(hmsOk 24 t.offset.hms && nameValid t.name) then none else
  let stdOff : Int := -(signedSeconds t.offset)
  let std : LocalTimeType := { utOffset := stdOff, isDst := false, name := some t.name }
  match t.dst with
  | none => some (.fixed std)
  | some d =>
    let dstOffOk := match d.offset with | none => true | some o => hmsOk 24 o.hms
    if !(dstOffOk && nameValid d.name && dayOk d.start.day && dayOk d.stop.day &&
         ruleTimeOk ext d.start.time && ruleTimeOk ext d.stop.time) then none else
    let dstOff : Int := match d.offset with
      | none => stdOff + 3600
      | some o => -(signedSeconds o)
    let dst : LocalTimeType := { utOffset := dstOff, isDst := true, name := some d.name }
    some (.alternate std dst (dayDenote d.start.day) (ruleTime d.start.time) (dayDenote d.stop.day) (ruleTime d.stop.time))

/-- the library's own constructors applied to the parts (C11 characterises `AlternateTime.new`) -/
def build : Parts → Option TransitionRule
  | .fixed std => some (.fixed std)
  | .alternate std dst ds st de et =>
    match AlternateTime.new std dst ds st de et with
    | .ok a => some (.alternate a)
    | .error _ => none

/-- the same with the spec's consistency condition in place of the constructor (used by the oracle) -/
def buildSpec : Parts → Option TransitionRule
  | .fixed std => some (.fixed std)
  | .alternate std dst ds st de et =>
    let a : AlternateTime := { std, dst, dstStart := ds, dstStartTime := st, dstEnd := de, dstEndTime := et }
    if consistentB a then some (.alternate a) else none

def denote (ext : Bool) (t : TzAst) : Option TransitionRule := (denoteParts ext t).bind buildSpec

/-! ### Executable reference reader (recursive descent over the productions above) -/

abbrev R := StateT Bytes Option

def rByte (c : Nat) : R Unit := do
  match (← get) with
  | b :: rest => if b = c then set rest else failure
  | [] => failure

def rNum : R Nat := do
  let s ← get
  let ds := s.takeWhile isAsciiDigit
  if ds.isEmpty then failure
  set (s.dropWhile isAsciiDigit)
  pure (digitsValue ds)

def rHms : R Hms := do
  let h ← rNum
  match (← get) with
  | 58 :: _ =>
    rByte 58
    let m ← rNum
    match (← get) with
    | 58 :: _ =>
      rByte 58
      let s ← rNum
      pure { h, m, s }
    | _ => pure { h, m, s := 0 }
  | _ => pure { h, m := 0, s := 0 }

def rSigned : R Signed := do
  match (← get) with
  | 43 :: _ => rByte 43; let x ← rHms; pure { sign := some false, hms := x }
  | 45 :: _ => rByte 45; let x ← rHms; pure { sign := some true, hms := x }
  | _ => let x ← rHms; pure { sign := none, hms := x }

def rName : R Bytes := do
  match (← get) with
  | 60 :: rest =>
    let n := rest.takeWhile (· != 62)
    match rest.dropWhile (· != 62) with
    | 62 :: rest' => set rest'; pure n
    | _ => failure
  | s =>
    let n := s.takeWhile isAsciiAlphabetic
    if n.isEmpty then failure
    set (s.dropWhile isAsciiAlphabetic)
    pure n

def rDay : R DayAst := do
  match (← get) with
  | 74 :: _ => rByte 74; let n ← rNum; pure (.j n)
  | 77 :: _ =>
    rByte 77
    let a ← rNum
    rByte 46
    let b ← rNum
    rByte 46
    let c ← rNum
    pure (.m a b c)
  | _ => let n ← rNum; pure (.z n)

def rRule : R RuleAst := do
  let d ← rDay
  match (← get) with
  | 47 :: _ => rByte 47; let t ← rSigned; pure { day := d, time := some t }
  | _ => pure { day := d, time := none }

/-- the reference reader: syntax tree of a complete match, `none` otherwise -/
def readTz (ext : Bool) (b : Bytes) : Option TzAst :=
  let p : R TzAst := do
    let name ← rName
    let offset ← rSigned
    match (← get) with
    | [] => pure { name, offset, dst := none }
    | _ =>
      let dn ← rName
      let doff ← (match (← get) with
        | 44 :: _ => pure none
        | _ => do let o ← rSigned; pure (some o))
      rByte 44
      let r1 ← rRule
      rByte 44
      let r2 ← rRule
      pure { name, offset, dst := some { name := dn, offset := doff, start := r1, stop := r2 } }
  match p.run b with
  | some (t, []) =>
    -- without extensions a rule time may not carry a sign
    let signOk (r : RuleAst) : Bool := ext || (match r.time with | some x => x.sign.isNone | none => true)
    match t.dst with
    | some d => if signOk d.start && signOk d.stop then some t else none
    | none => some t
  | _ => none

/-- what a TZ description must decode to (`none` = must be rejected) -/
def tzExpected (ext : Bool) (b : Bytes) : Option TransitionRule :=
  match readTz ext b with
  | none => none
  | some t => denote ext t

end TzVerif.Spec
