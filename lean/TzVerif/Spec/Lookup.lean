/-
Spec layer: what a zone answers at an instant, and which instants show a given local time —
executable, and independent of the code's algorithms (no binary search, no running estimate, no
six-instant window: filters over the table, union-of-periods for the rule).
-/
import TzVerif.Spec.Zone
import TzVerif.Spec.Rule

namespace TzVerif.Spec
open TzVerif.Model

/-- the count reached at UTC instant `u`: the largest `T` with `toUtc T ≤ u`
    (it is one of `u + c` for a correction `c` of the table, or `u`) -/
def toCountSpec (ls : List LeapSecond) (u : Int) : Int :=
  let cands := u :: ls.map (fun l => u + l.correction)
  (cands.filter (fun T => toUtc ls T ≤ u)).foldl (fun m T => if T > m then T else m) (u - 4294967296)

/-- civil year containing day number `n` -/
def yearOfDay (n : Int) : Int :=
  let y0 := 1970 + n * 400 / 146097
  let y1 := if daysBeforeYear y0 > n then y0 - 1 else y0
  let y2 := if daysBeforeYear y1 > n then y1 - 1 else y1
  let y3 := if daysBeforeYear (y2 + 1) ≤ n then y2 + 1 else y2
  if daysBeforeYear (y3 + 1) ≤ n then y3 + 1 else y3

inductive Expect where
  | type (t : LocalTimeType)
  | noAvail
  | outOfRange
  deriving DecidableEq, Repr

def ruleExpect (r : TransitionRule) (u : Int) : Expect :=
  match r with
  | .fixed t => .type t
  | .alternate a =>
    let y := yearOfDay (u / 86400)
    if y < i32Min + 2 ∨ y > i32Max - 2 then .outOfRange
    else if isDstB a u then .type a.dst else .type a.std

/-- what the zone answers at UTC instant `u` -/
def zoneExpect (z : TimeZone) (u : Int) : Expect :=
  match z.transitions.getLast? with
  | none =>
    match z.extraRule with
    | some r => ruleExpect r u
    | none => .type (z.localTimeTypes.getD 0 default)
  | some last =>
    let L := toCountSpec z.leapSeconds u
    if L ≥ last.unixLeapTime then
      match z.extraRule with
      | some r => ruleExpect r u
      | none => .noAvail
    else .type (z.localTimeTypes.getD (typeIndexAt z.transitions L) default)

/-- which part of the zone decided the answer: 0 = no table, 1 = table, 2 = trailing rule / none -/
def decidedBy (z : TimeZone) (u : Int) : Nat :=
  match z.transitions.getLast? with
  | none => 0
  | some last => if toCountSpec z.leapSeconds u ≥ last.unixLeapTime then 2 else 1

/-- all local time types a zone can report -/
def zoneTypes (z : TimeZone) : List LocalTimeType :=
  let base := z.localTimeTypes
  let extra := match z.extraRule with
    | some (.fixed t) => [t]
    | some (.alternate a) => [a.std, a.dst]
    | none => []
  (base ++ extra).eraseDups

/-- the set of (instant, type) at which the zone's clock shows the local second count `c` -/
def validSet (z : TimeZone) (c : Int) : List (Int × LocalTimeType) :=
  (zoneTypes z).filterMap (fun t =>
    let u := c - t.utOffset
    if zoneExpect z u = .type t then some (u, t) else none)

/-- the effective transitions of a zone near local second count `c`, as (UTC instant, type before, type after):
    table transitions (the last one only when a rule follows), then the rule's instants after the table -/
def transitionsNear (z : TimeZone) (c : Int) : List (Int × LocalTimeType × LocalTimeType) :=
  let n := z.transitions.length
  let tbl : List (Int × LocalTimeType × LocalTimeType) :=
    (List.range n).filterMap (fun i =>
      if i + 1 = n ∧ z.extraRule.isNone then none else
      match z.transitions[i]? with
      | none => none
      | some t =>
        let before := if i = 0 then z.localTimeTypes.getD 0 default
          else z.localTimeTypes.getD ((z.transitions.getD (i - 1) default).localTimeTypeIndex) default
        some (toUtc z.leapSeconds t.unixLeapTime, before, z.localTimeTypes.getD t.localTimeTypeIndex default))
  let lastUtc : Option Int := z.transitions.getLast?.map (fun t => toUtc z.leapSeconds t.unixLeapTime)
  let rule : List (Int × LocalTimeType × LocalTimeType) :=
    match z.extraRule with
    | some (.alternate a) =>
      let y0 := yearOfDay (c / 86400)
      let ys := (List.range 7).map (fun (i : Nat) => y0 - 3 + Int.ofNat i)
      let all := ys.flatMap (fun y => [(startInstant a y, a.std, a.dst), (endInstant a y, a.dst, a.std)])
      all.filter (fun x => match lastUtc with | some l => x.1 > l | none => true)
    | _ => []
  tbl ++ rule

/-- gaps containing local second count `c`: forward transitions with T + a ≤ c < T + b -/
def gapSet (z : TimeZone) (c : Int) : List (Int × LocalTimeType × LocalTimeType) :=
  (transitionsNear z c).filter (fun x => x.1 + x.2.1.utOffset ≤ c && c < x.1 + x.2.2.utOffset)

end TzVerif.Spec
