/-
Executable spec oracles evaluated by the driver on the *implementation's* answers (never on the
model's). Each verdict is named `<property>.<clause>`; a name carrying `[KF:<class>]` marks an input in
a known-finding class (DESIGN §2/§3). Every oracle is the Boolean twin of a statement in
`Properties/Cxx.lean`, written with the Spec layer only.
-/
import TzVerif.Driver.Codec
import TzVerif.Spec.Calendar
import TzVerif.Spec.Lookup
import TzVerif.Spec.Text
import TzVerif.Spec.TzGrammar

namespace TzVerif.Spec
open TzVerif.Model TzVerif.Driver TzVerif.Gen

abbrev Verdicts := List (String × Bool)

def ints? (toks : List String) : Option (List Int) := toks.mapM String.toInt?

def isErr (rhs : List String) : Bool := match rhs with
  | t :: _ => t.startsWith "Err"
  | [] => false

def validDateB (y m d : Int) : Bool := decide (ValidDate y m d)
def validTimeB (h mi s : Int) : Bool := decide (ValidTime h mi s)

/-! ### C01 -/

def gmtimeOracles (t ns : Int) (rhs : List String) : Verdicts :=
  let inRange := decide (MIN_UNIX_TIME ≤ t ∧ t ≤ MAX_UNIX_TIME)
  if isErr rhs then
    [("C01.refused_only_outside_range", !inRange), ("C01.refusal_is_out_of_range", rhs == ["Err:OutOfRange"])]
  else match ints? rhs with
    | some [y, mo, d, h, mi, s, ns', wd, yd] =>
      [("C01.accepted_only_in_range", inRange),
       ("C01.day_exists", validDateB y mo d),
       ("C01.time_in_range", decide (0 ≤ h ∧ h ≤ 23 ∧ 0 ≤ mi ∧ mi ≤ 59 ∧ 0 ≤ s ∧ s ≤ 59)),
       ("C01.fields_denote_instant", seconds y mo d h mi s == t),
       ("C01.nanoseconds_copied", ns' == ns),
       ("C01.year_fits_i32", decide (i32Min ≤ y ∧ y ≤ i32Max)),
       ("C01.week_day", wd == weekdayOfDay (t / 86400)),
       ("C01.year_day", yd == t / 86400 - daysBeforeYear y && decide (0 ≤ yd ∧ yd < yearLen y))]
    | _ => [("C01.answer_shape", false)]

/-! ### C02 / C16 -/

/-- what `UtcDateTime::new` must answer (same clause list as `C02.expected`, tied by `rfl` there) -/
def utcNewExpected (y mo d h mi s ns : Int) : Option String :=
  if y = i32Max ∧ mo = 12 ∧ d = 31 ∧ h = 23 ∧ mi = 59 ∧ s = 60 then some "Err:OutOfRange"
  else if ¬ (1 ≤ mo ∧ mo ≤ 12) then some "Err:DateTime.InvalidMonth"
  else if ¬ (1 ≤ d ∧ d ≤ 31) then some "Err:DateTime.InvalidMonthDay"
  else if h > 23 then some "Err:DateTime.InvalidHour"
  else if mi > 59 then some "Err:DateTime.InvalidMinute"
  else if s > 60 then some "Err:DateTime.InvalidSecond"
  else if ns ≥ 1000000000 then some "Err:DateTime.InvalidNanoseconds"
  else if d > monthLen y mo then some "Err:DateTime.InvalidMonthDay"
  else none

/-- field validation alone (no excluded instant): for the zoned constructor and the search -/
def fieldsError (y mo d h mi s ns : Int) : Option String :=
  if ¬ (1 ≤ mo ∧ mo ≤ 12) then some "Err:DateTime.InvalidMonth"
  else if ¬ (1 ≤ d ∧ d ≤ 31) then some "Err:DateTime.InvalidMonthDay"
  else if h > 23 then some "Err:DateTime.InvalidHour"
  else if mi > 59 then some "Err:DateTime.InvalidMinute"
  else if s > 60 then some "Err:DateTime.InvalidSecond"
  else if ns ≥ 1000000000 then some "Err:DateTime.InvalidNanoseconds"
  else if d > monthLen y mo then some "Err:DateTime.InvalidMonthDay"
  else none

def utcnewOracles (y mo d h mi s ns : Int) (rhs : List String) : Verdicts :=
  match utcNewExpected y mo d h mi s ns with
  | some e => [("C02.refused_with_specific_error", rhs == [e])]
  | none =>
    match ints? rhs with
    | some [ut, wd, yd, tn] =>
      let dn := dayNumber y mo d
      [("C02.accepts_real_dates", true),
       ("C02.unix_time_is_second_count", ut == seconds y mo d h mi s),
       ("C02.week_day", wd == weekdayOfDay dn),
       ("C02.year_day", yd == dn - daysBeforeYear y),
       ("C16.total_is_s_times_1e9_plus_ns", tn == ut * 1000000000 + ns)]
    | _ => [("C02.accepts_real_dates", false)]

def cmp3 (a b : List Int) : Int :=
  match a, b with
  | x :: xs, y :: ys => if x < y then -1 else if x > y then 1 else cmp3 xs ys
  | _, _ => 0

def utccmpOracles (a b : List Int) (rhs : List String) : Verdicts :=
  match ints? rhs, a, b with
  | some [c, ua, ub], [y, mo, d, h, mi, s, _], [y', mo', d', h', mi', s', _] =>
    let c6 := cmp3 [y, mo, d, h, mi, s] [y', mo', d', h', mi', s']
    let both59 := decide (s ≤ 59 ∧ s' ≤ 59)
    [("C02.ord_is_lexicographic", c == cmp3 a b),
     ("C02.unix_times", ua == seconds y mo d h mi s && ub == seconds y' mo' d' h' mi' s'),
     ("C02.later_date_larger_unix_time", !both59 || ((c6 == -1) == decide (ua < ub) && (c6 == 1) == decide (ua > ub)))]
  | _, _, _ => [("C02.answer_shape", false)]

/-- `==` and `partial_cmp` of two zoned date-times built from (u1, ns1) and (u2, ns2): judged on the implementation's
own answer `eq cmp` (1/0 and -1/0/1; 9 = `None`) — they depend on (Unix time, nanoseconds) only -/
def dtcmpOracles (u1 ns1 u2 ns2 : Int) (rhs : List String) : Verdicts :=
  if rhs == ["Err:Construct"] then []
  else match ints? rhs with
    | some [e, c] =>
      [("C14.equality_depends_on_instant_only", e == (if u1 == u2 && ns1 == ns2 then 1 else 0)),
       ("C14.ordering_is_lexicographic_on_instant", c == cmp3 [u1, ns1] [u2, ns2])]
    | _ => [("C14.answer_shape", false)]

def utctnOracles (n : Int) (rhs : List String) : Verdicts :=
  let sec := n / 1000000000
  let inRange := decide (MIN_UNIX_TIME ≤ sec ∧ sec ≤ MAX_UNIX_TIME)
  if isErr rhs then [("C16.refused_only_outside_range", !inRange), ("C16.refusal_is_out_of_range", rhs == ["Err:OutOfRange"])]
  else match ints? rhs with
    | some [y, mo, d, h, mi, s, ns, _, _, ut] =>
      [("C16.accepted_only_in_range", inRange),
       ("C16.seconds_are_floor", ut == sec && seconds y mo d h mi s == sec),
       ("C16.nanoseconds_in_range", ns == n % 1000000000 && decide (0 ≤ ns ∧ ns ≤ 999999999)),
       ("C16.recombines", ut * 1000000000 + ns == n)]
    | _ => [("C16.answer_shape", false)]

/-! ### C18 -/

def fmtOracles (y mo d h mi s ns off : Int) (rhs : String) : Verdicts :=
  if rhs.startsWith "Err" then []   -- construction refused: nothing rendered (C14 decides whether rightly)
  else
    [("C18.reads_back", readBack rhs.toList ==
        some { year := y, month := mo, day := d, hour := h, minute := mi, second := s, nanoseconds := ns, offset := off })]

/-! ### C13 -/

def nameOk (n : List Nat) : Bool :=
  decide (3 ≤ n.length ∧ n.length ≤ 7) &&
  n.all (fun b => (48 ≤ b && b ≤ 57) || (65 ≤ b && b ≤ 90) || (97 ≤ b && b ≤ 122) || b == 43 || b == 45)

def lttnewOracles (off : Int) (name : Option (List Nat)) (rhs : String) : Verdicts :=
  let expected : String :=
    if off = i32Min then "Err:LocalTimeType.InvalidUtcOffset"
    else match name with
      | none => "ok"
      | some n =>
        if ¬ (3 ≤ n.length ∧ n.length ≤ 7) then "Err:LocalTimeType.InvalidTimeZoneDesignationLength"
        else if !nameOk n then "Err:LocalTimeType.InvalidTimeZoneDesignationChar" else "ok"
  [("C13.local_time_type", rhs == expected)]

/-- Boolean twin of `Spec.WFZone`, and the expected error (first violated clause in checking order) -/
def leapStepsOKB : List LeapSecond → Bool
  | [] => true
  | [_] => true
  | a :: b :: rest =>
    decide (b.unixLeapTime - a.unixLeapTime ≥ 2419199) &&
    (b.correction - a.correction == 1 || b.correction - a.correction == -1) && leapStepsOKB (b :: rest)

def leapWFB (ls : List LeapSecond) : Bool :=
  (match ls with
   | [] => true
   | l :: _ => decide (l.unixLeapTime ≥ 0) && (l.correction == 1 || l.correction == -1)) && leapStepsOKB ls

def strictlyIncreasingB : List Transition → Bool
  | [] => true
  | [_] => true
  | a :: b :: rest => decide (a.unixLeapTime < b.unixLeapTime) && strictlyIncreasingB (b :: rest)

/-- first structural defect in the order the property lists its errors for a transition table -/
def transitionsError (n : Nat) : List Transition → Option String
  | [] => none
  | t :: rest =>
    if t.localTimeTypeIndex ≥ n then some "Err:TimeZone.InvalidLocalTimeTypeIndex"
    else match rest with
      | [] => none
      | t' :: _ => if t.unixLeapTime ≥ t'.unixLeapTime then some "Err:TimeZone.InvalidTransition" else transitionsError n rest

def zoneExpected (z : TimeZone) : String :=
  if z.localTimeTypes.isEmpty then "Err:TimeZone.NoLocalTimeType"
  else match transitionsError z.localTimeTypes.length z.transitions with
    | some e => e
    | none =>
      if !leapWFB z.leapSeconds then "Err:TimeZone.InvalidLeapSecond"
      else match z.extraRule, z.transitions.getLast? with
        | some r, some last =>
          let T := last.unixLeapTime
          let ut := toUtc z.leapSeconds T
          if T = i64Min ∨ ut < i64Min ∨ ut > i64Max then "Err:OutOfRange"
          else match ruleExpect r ut with
            | .type t => if t == z.localTimeTypes.getD last.localTimeTypeIndex default then "ok" else "Err:TimeZone.InconsistentExtraRule"
            | .outOfRange => "Err:OutOfRange"
            | .noAvail => "?"
        | _, _ => "ok"

def ruleOf (z : TimeZone) : Option AlternateTime :=
  match z.extraRule with
  | some (.alternate a) => some a
  | _ => none

/-- tag for inputs whose rule lies in a known-finding class -/
def kfTag (z : TimeZone) : String :=
  match ruleOf z with
  | some a => if classReverseTie a then "[KF:rule_reverse_order_with_tie]" else if classOverlap a then "[KF:rule_periods_overlap]" else ""
  | none => ""

def zonenewOracles (z : TimeZone) (rhs : List String) : Verdicts :=
  match rhs with
  | [a, b] =>
    let e := zoneExpected z
    -- when the rule clause is decided by an instant outside the supported range the evaluation error wins
    [("C13.owned_equals_borrowed", a == b),
     ("C13.accepts_exactly_well_formed" ++ kfTag z, (a == "ok") == (e == "ok") || e == "?"),
     ("C13.specific_error" ++ kfTag z, a == e || e == "?")]
  | _ => [("C13.answer_shape", false)]

/-! ### C14 -/

def dtInv (d : DateTime) : Bool :=
  validDateB d.year d.month d.monthDay && validTimeB d.hour d.minute d.second &&
  seconds d.year d.month d.monthDay d.hour d.minute d.second == d.unixTime + d.localTimeType.utOffset

def dt? (rhs : List String) : Option DateTime :=
  match runP dt rhs with
  | .ok d => some d
  | .error _ => none

def dtOracles (rhs : List String) : Verdicts :=
  if isErr rhs then [] else
  match dt? rhs with
  | some d => [("C14.fields_match_instant", dtInv d)]
  | none => [("C14.answer_shape", false)]

def dtnewOracles (y mo d h mi s ns : Int) (l : LocalTimeType) (rhs : List String) : Verdicts :=
  match fieldsError y mo d h mi s ns with
  | some e => [("C14.refused_when_not_a_real_date", rhs == [e])]
  | none =>
    let ut := seconds y mo d h mi s - l.utOffset
    if MIN_UNIX_TIME ≤ ut ∧ ut ≤ MAX_UNIX_TIME then
      match dt? rhs with
      | some x => [("C14.new_keeps_fields", x.year == y && x.month == mo && x.monthDay == d && x.hour == h && x.minute == mi &&
                      x.second == s && x.nanoseconds == ns && x.localTimeType == l && x.unixTime == ut)]
      | none => [("C14.accepted_when_in_range", false)]
    else [("C14.refused_when_instant_out_of_range", rhs == ["Err:OutOfRange"])]

def dtfromlocalOracles (u ns : Int) (l : LocalTimeType) (rhs : List String) : Verdicts :=
  let t := u + l.utOffset
  if MIN_UNIX_TIME ≤ t ∧ t ≤ MAX_UNIX_TIME then
    match dt? rhs with
    | some x => [("C14.from_timestamp_keeps_instant", x.unixTime == u && x.nanoseconds == ns && x.localTimeType == l && decide (x.second ≤ 59))]
    | none => [("C14.accepted_when_in_range", false)]
  else [("C14.refused_when_instant_out_of_range", rhs == ["Err:OutOfRange"])]

def dttnOracles (n : Int) (l : LocalTimeType) (rhs : List String) : Verdicts :=
  let sec := n / 1000000000
  let t := sec + l.utOffset
  if i64Min ≤ sec ∧ sec ≤ i64Max ∧ MIN_UNIX_TIME ≤ t ∧ t ≤ MAX_UNIX_TIME then
    match rhs.reverse with
    | tn :: "TN" :: rest =>
      match dt? rest.reverse, tn.toInt? with
      | some x, some tnv =>
        [("C16.zoned_from_total", x.unixTime == sec && x.nanoseconds == n % 1000000000 && x.localTimeType == l),
         ("C16.total_roundtrip", tnv == n)]
      | _, _ => [("C16.answer_shape", false)]
    | _ => [("C16.accepted_when_in_range", false)]
  else [("C16.refused_when_out_of_range", rhs == ["Err:OutOfRange"])]

/-! ### C11 -/

def rulenewOracles (std dst : LocalTimeType) (ds : RuleDay) (st : Int) (de : RuleDay) (et : Int) (rhs : String) : Verdicts :=
  let a : AlternateTime := { std, dst, dstStart := ds, dstStartTime := st, dstEnd := de, dstEndTime := et }
  let offOk (o : Int) : Bool := decide (-25 * 3600 < o ∧ o < 26 * 3600)
  let timeOk (t : Int) : Bool := decide (-604800 < t ∧ t < 604800)
  let expected : String :=
    if !offOk std.utOffset then "Err:TransitionRule.InvalidStdUtcOffset"
    else if !offOk dst.utOffset then "Err:TransitionRule.InvalidDstUtcOffset"
    else if !(timeOk st && timeOk et) then "Err:TransitionRule.InvalidDstStartEndTime"
    else if !consistentB a then "Err:TransitionRule.InconsistentRule"
    else "ok"
  [("C11.accepts_exactly_consistent_rules", (rhs == "ok") == (expected == "ok")),
   ("C11.specific_error", rhs == expected)]

/-! ### C03 / C04 / C12 -/

def lttOf? (rhs : List String) : Option LocalTimeType :=
  match runP ltt rhs with
  | .ok l => some l
  | .error _ => none

def lookupOracles (z : TimeZone) (u : Int) (rhs : List String) : Verdicts :=
  let e := zoneExpect z u
  let by_ := decidedBy z u
  let nearEnds := decide (u < i64Min + 4294967296 ∨ u > i64Max - 4294967296)
  let ok : Bool :=
    match e with
    | .type t => (lttOf? rhs == some t) || (nearEnds && rhs == ["Err:OutOfRange"])
    | .noAvail => rhs == ["Err:NoAvailableLocalTimeType"] || (nearEnds && rhs == ["Err:OutOfRange"])
    | .outOfRange => rhs == ["Err:OutOfRange"]
  let ruleDecides := (by_ == 0 || by_ == 2) && (ruleOf z).isSome
  let tag := kfTag z
  (if by_ == 1 then [("C03.latest_transition_at_or_before", ok)] else []) ++
  (if by_ == 2 && !ruleDecides then [("C03.after_last_transition", ok)] else []) ++
  (if by_ == 0 && !ruleDecides then [("C03.no_table", ok)] else []) ++
  (if by_ != 0 && !z.leapSeconds.isEmpty then [("C12.transition_takes_effect_at_its_utc_instant", ok || ruleDecides)] else []) ++
  (if ruleDecides then
     match ruleOf z with
     | some a => if interleavesB a || tag != "" then [("C04.dst_exactly_inside_periods" ++ tag, ok)] else []
     | none => []
   else [])

def dtfromOracles (z : TimeZone) (u ns : Int) (rhs : List String) : Verdicts :=
  if isErr rhs then [] else
  match dt? rhs with
  | some d =>
    let tag := kfTag z
    [("C03.local_date_time_is_instant_plus_offset", d.unixTime == u && d.nanoseconds == ns && dtInv d && decide (d.second ≤ 59)),
     ("C03.local_date_time_type" ++ tag, zoneExpect z u == .type d.localTimeType)]
  | none => [("C03.answer_shape", false)]

/-- projection of a date-time written as fields under offset `off` (second 60 allowed) into a zone: the result is
    the zone's date-time at the instant the fields denote — never a copy of the source fields -/
def projectOracles (z : TimeZone) (y mo d h mi s ns off : Int) (rhs : List String) : Verdicts :=
  if isErr rhs then [] else
  match dt? rhs with
  | some x =>
    let u := seconds y mo d h mi s - off
    [("C03.local_date_time_is_instant_plus_offset", x.unixTime == u && x.nanoseconds == ns && dtInv x && decide (x.second ≤ 59)),
     ("C03.local_date_time_type" ++ kfTag z, zoneExpect z u == .type x.localTimeType),
     ("C14.projection_keeps_the_instant", x.unixTime == u && x.nanoseconds == ns)]
  | none => [("C03.answer_shape", false)]

/-- zoned date-time from total nanoseconds: the pair is (floor seconds, remainder) and the type is the
    zone's type at the floor second -/
def dtfromtnOracles (z : TimeZone) (n : Int) (rhs : List String) : Verdicts :=
  if isErr rhs then [] else
  match rhs.reverse with
  | tn :: "TN" :: rest =>
    match dt? rest.reverse, tn.toInt? with
    | some x, some tnv =>
      let sec := n / 1000000000
      [("C16.zoned_from_total_uses_floor_seconds" ++ kfTag z,
          x.unixTime == sec && x.nanoseconds == n % 1000000000 && zoneExpect z sec == .type x.localTimeType),
       ("C16.total_roundtrip", tnv == n),
       ("C14.fields_match_instant", dtInv x)]
    | _, _ => [("C16.answer_shape", false)]
  | _ => [("C16.answer_shape", false)]

/-! ### C05 / C06 / C14 / C17 -/

/-- parse `[ n … ] U x E x X x` -/
def findAnswer? (rhs : List String) : Option (List Found × List String) :=
  match (foundList.run rhs) with
  | .ok (l, rest) => some (l, rest)
  | .error _ => none

def foundInstant : Found → Int
  | .normal d => d.unixTime
  | .skipped b _ => b.unixTime

def nondecreasing : List Int → Bool
  | a :: b :: rest => decide (a ≤ b) && nondecreasing (b :: rest)
  | _ => true

def sameMembers {α} [BEq α] (a b : List α) : Bool := a.all (b.contains ·) && b.all (a.contains ·)

def noDups {α} [BEq α] : List α → Bool
  | [] => true
  | x :: xs => !xs.contains x && noDups xs

def showOpt (o : Option DateTime) : String := showOptDt o

/-- The search assumes that the rule's yearly instants interleave; for an accepted rule whose periods
    overlap (F2) its six-instant window is not sorted and every clause about the rule part of the result
    can fail (duplicates, entries before the last table transition, order). The class predicate is on the
    rule, so a zone without such a rule is never excused. -/
def kfTagDup (z : TimeZone) : String := kfTag z

def kfTagF1 (z : TimeZone) : String := kfTag z

/-- `findn … => <count> <exh> <datalen> B <n entries> U … E … X … ## F <find answer> ## S <n entries after stale search>` -/
def splitOn3 (toks : List String) : List (List String) :=
  let rec go : List String → List String → List (List String) → List (List String)
    | [], cur, acc => (cur.reverse :: acc).reverse
    | t :: ts, cur, acc => if t == "##" then go ts [] (cur.reverse :: acc) else go ts (t :: cur) acc
  go toks [] []

def findOracles (z : TimeZone) (y mo d h mi s ns : Int) (rhs : List String) : Verdicts :=
  -- F5: the search guards the searched (local) year, the lookup the UTC year of the instant: in the two
  -- outermost guarded years a candidate can fall into a UTC year the lookup refuses
  let tagEdge := if (ruleOf z).isSome && (y == i32Max - 2 || y == i32Min + 2) then "[KF:search_year_guard_edge]" else ""
  let tag := if kfTagF1 z != "" then kfTagF1 z else tagEdge
  let tagDup := if kfTagDup z != "" then kfTagDup z else tagEdge
  match fieldsError y mo d h mi s ns with
  | some e => [("C05.search_refuses_invalid_fields", rhs == [e])]
  | none =>
    if isErr rhs then []   -- a candidate instant outside the supported range (separate lemma `find_err_iff`)
    else
    -- `… ## L a | b`: the implementation's own forward lookup at every valid result
    let (rhs, ownToks) := match splitOn3 rhs with
      | [m, "L" :: o] => (m, some o)
      | _ => (rhs, none)
    match findAnswer? rhs with
    | none => [("C05.answer_shape", false)]
    | some (l, rest) =>
      let c := seconds y mo d h mi s
      let normals := l.filterMap (fun f => match f with | .normal x => some x | _ => none)
      let skipped := l.filterMap (fun f => match f with | .skipped b a => some (b, a) | _ => none)
      let implSet := normals.map (fun x => (x.unixTime, x.localTimeType))
      let spec := validSet z c
      let fieldsOk := normals.all (fun x => x.year == y && x.month == mo && x.monthDay == d && x.hour == h &&
        x.minute == mi && x.second == s && x.nanoseconds == ns)
      let gaps := gapSet z c
      let implGaps := skipped.map (fun (b, a) => (b.unixTime, b.localTimeType, a.localTimeType))
      let gapsShape := skipped.all (fun (b, a) => b.unixTime == a.unixTime && b.nanoseconds == ns && a.nanoseconds == ns && dtInv b && dtInv a)
      let accessors : String := s!"U {showOpt (listUnique l)} E {showOpt (listEarliest l)} X {showOpt (listLatest l)}"
      let ownOk : Bool := match ownToks with
        | none => true
        | some o =>
          let items := (String.intercalate " " o).splitOn " | "
          let items := if o.isEmpty then [] else items
          items == normals.map (fun x => showLtt x.localTimeType)
      [("C05.results_show_the_time_under_the_implementations_own_lookup" ++ tag, ownOk),
       ("C05.valid_results_are_exactly_the_instants" ++ tag, sameMembers implSet spec),
       ("C05.no_duplicates" ++ tagDup, noDups implSet),
       ("C05.results_carry_searched_fields", fieldsOk),
       ("C14.search_entries", l.all (fun f => match f with | .normal x => dtInv x | .skipped b a => dtInv b && dtInv a)),
       ("C06.gaps_reported_exactly" ++ tagDup, sameMembers implGaps gaps && noDups implGaps && gapsShape),
       ("C06.ascending_order" ++ tagDup, nondecreasing (l.map foundInstant)),
       ("C06.unique_earliest_latest", String.intercalate " " rest == accessors),
       ("C06.unique_iff_single_valid_result" ++ tagDup,
          (listUnique l).isSome == (spec.length == 1 && gaps.isEmpty))] ++
      (if z.leapSeconds.isEmpty then [] else
        [("C12.search_reports_the_instant_the_lookup_switches" ++ tag, sameMembers (implGaps.map (·.1)) (gaps.map (·.1))),
         ("C12.search_and_lookup_agree" ++ tag, sameMembers implSet spec)])

def bufEntries (n : Nat) : P (List (Option Found)) :=
  repeatP n (do
    match (← peek?) with
    | some "-" => let _ ← tok; pure none
    | _ => let f ← found; pure (some f))

def findnOracles (_z : TimeZone) (n : Nat) (_f _stale : Int × Int × Int × Int × Int × Int × Int) (rhs : List String) : Verdicts :=
  match splitOn3 rhs with
  | [main, "F" :: fAns, "S" :: sBuf] =>
    if isErr main then [("C17.same_error", main == fAns)]
    else if isErr fAns then [("C17.same_error", false)]
    else
      match findAnswer? fAns, runP (bufEntries n) sBuf, main with
      | some (rs, _), .ok stale, cnt :: exh :: dl :: "B" :: restMain =>
        match (bufEntries n).run restMain with
        | .ok (buf, acc) =>
          let k := rs.length
          let m := min n k
          let expectedBuf := (rs.take m).map some ++ stale.drop m
          let accessors : String :=
            if n ≥ k then s!"U {showOpt (listUnique rs)} E {showOpt (listEarliest rs)} X {showOpt (listLatest rs)}" else ""
          [("C17.count_is_total", cnt == toString k),
           ("C17.exhaustive_iff_fits", (exh == "1") == decide (n ≥ k)),
           ("C17.data_is_prefix", dl == toString m),
           ("C17.buffer_prefix_then_untouched", buf == expectedBuf),
           ("C17.accessors_agree_when_exhaustive", n < k || String.intercalate " " acc == accessors),
           -- C06 on the buffer list itself: the accessors are the extremes of the results it holds (its own
           -- written prefix), whatever the rest of the buffer contains
           ("C06.buffer_accessors_are_extremes_of_own_results",
              n < k ||
              (let own := (buf.take m).filterMap id
               String.intercalate " " acc ==
                 s!"U {showOpt (listUnique own)} E {showOpt (listEarliest own)} X {showOpt (listLatest own)}"))]
        | .error _ => [("C17.answer_shape", false)]
      | _, _, _ => [("C17.answer_shape", false)]
  | _ => []   -- line without the companion answers (older corpus): nothing to compare

/-! ### C08 / C09 / C20 -/

def tzifOracles (_b : List Nat) (_rhs : List String) : Verdicts := []

def tzifgenOracles (_v : Nat) (z : TimeZone) (_b : List Nat) (rhs : List String) : Verdicts :=
  [("C08.decodes_to_the_encoded_zone", String.intercalate " " rhs == showZone z)]

def tzifbadOracles (cls : String) (_b : List Nat) (rhs : String) : Verdicts :=
  [("C08.rejects_" ++ cls, rhs.startsWith "Err")]

def isWs (b : Nat) : Bool := b == 32 || b == 9 || b == 10 || b == 12 || b == 13

def stripWs (s : List Nat) : List Nat := ((s.dropWhile isWs).reverse.dropWhile isWs).reverse

/-- what a version-2/3 footer `\n <b> \n` must decode to: `none` = the file must be rejected,
    `some r` = accepted with trailing rule `r` -/
def footerExpected (ext : Bool) (b : List Nat) : Option (Option TransitionRule) :=
  let footer := [10] ++ b ++ [10]
  if footer.any (· ≥ 128) then none else    -- no accepted description contains a non-ASCII byte
  let tz := stripWs footer
  if tz.head? == some 58 || tz.contains 0 then none
  else if tz.isEmpty then some none
  else match tzExpected ext tz with
    | none => none
    | some r => some (some r)

def tzfooterOracles (v : Nat) (b : List Nat) (rhs : List String) : Verdicts :=
  if v != 50 && v != 51 then [] else
  let e := footerExpected (v == 51) b
  let implOk := !isErr rhs
  let utc : LocalTimeType := { utOffset := 0, isDst := false, name := some [85, 84, 67] }
  [("C09.accepts_exactly_the_grammar", implOk == e.isSome),
   ("C09.decodes_to_the_denoted_rule",
      match e with
      | some r => !implOk || String.intercalate " " rhs == showZone { transitions := [], localTimeTypes := [utc], leapSeconds := [], extraRule := r }
      | none => true)]

/-- C20: which paths must be requested, in order, and what must come out -/
def resolveExpected (dirs : List (List Nat)) (files : List (List Nat × List Nat)) (tz : List Nat) : List (List Nat) × String :=
  let fs : List Nat → Option (List Nat) := fun p => (files.find? (·.1 == p)).map (·.2)
  let decode (b : List Nat) : String := showTz showZone (parseTzFile b)   -- decoding itself is C08's subject
  if tz.isEmpty then ([], "Err:TzString.Empty") else
  let localtime : List Nat := "localtime".toList.map Char.toNat
  let etc : List Nat := "/etc/localtime".toList.map Char.toNat
  if tz == localtime then
    ([etc], match fs etc with | some b => decode b | none => "Err:Io")
  else
    let forced := tz.head? == some 58
    let name := if forced then tz.tail else tz
    let cands : List (List Nat) := if name.head? == some 47 then [name] else dirs.map (fun d => d ++ [47] ++ name)
    -- up to and including the first readable candidate
    let rec upTo : List (List Nat) → List (List Nat)
      | [] => []
      | p :: ps => if (fs p).isSome then [p] else p :: upTo ps
    let paths := upTo cands
    match cands.findSome? fs with
    | some b => (paths, decode b)
    | none =>
      if forced then (paths, "Err:Io")
      else
        let text := stripWs tz
        match tzExpected false text with
        | none => (paths, "Err")
        | some r =>
          let types := match r with
            | .fixed t => [t]
            | .alternate a => [a.std, a.dst]
          (paths, showZone { transitions := [], localTimeTypes := types, leapSeconds := [], extraRule := some r })

def resolveOracles (dirs : List (List Nat)) (files : List (List Nat × List Nat)) (tz : List Nat) (rhs : List String) : Verdicts :=
  -- rhs: P <n> x.. x.. R <result…>
  match rhs with
  | "P" :: n :: rest =>
    match n.toNat? with
    | none => [("C20.answer_shape", false)]
    | some k =>
      let pathToks := rest.take k
      match rest.drop k with
      | "R" :: res =>
        let (ePaths, eRes) := resolveExpected dirs files tz
        let result := String.intercalate " " res
        [("C20.opens_exactly_the_expected_paths_in_order", pathToks == ePaths.map (fun p => "x" ++ hexEncode p)),
         ("C20.result", if eRes == "Err" then result.startsWith "Err:TzString" || result.startsWith "Err:LocalTimeType" || result.startsWith "Err:TransitionRule"
                        else result == eRes)]
      | _ => [("C20.answer_shape", false)]
  | _ => [("C20.answer_shape", false)]

end TzVerif.Spec
