/-
Executable spec oracles evaluated by the driver on the *implementation's* answers.
Each is the Boolean twin of a Prop stated in `Properties/Cxx.lean`.
-/
import TzVerif.Driver.Codec

namespace TzVerif.Spec
open TzVerif.Model TzVerif.Driver

abbrev Verdicts := List (String × Bool)

def gmtimeOracles (_t _ns : Int) (_rhs : List String) : Verdicts := []
def utcnewOracles (_y _mo _d _h _mi _s _ns : Int) (_rhs : List String) : Verdicts := []
def utccmpOracles (_a _b : List Int) (_rhs : List String) : Verdicts := []
def utctnOracles (_n : Int) (_rhs : List String) : Verdicts := []
def fmtOracles (_y _mo _d _h _mi _s _ns _off : Int) (_rhs : String) : Verdicts := []
def lttnewOracles (_off : Int) (_name : Option (List Nat)) (_rhs : String) : Verdicts := []
def dtOracles (_rhs : List String) : Verdicts := []
def dtnewOracles (_y _mo _d _h _mi _s _ns : Int) (_l : LocalTimeType) (_rhs : List String) : Verdicts := []
def dtfromlocalOracles (_u _ns : Int) (_l : LocalTimeType) (_rhs : List String) : Verdicts := []
def dttnOracles (_n : Int) (_l : LocalTimeType) (_rhs : List String) : Verdicts := []
def rulenewOracles (_std _dst : LocalTimeType) (_ds : RuleDay) (_st : Int) (_de : RuleDay) (_et : Int) (_rhs : String) : Verdicts := []
def zonenewOracles (_z : TimeZone) (_rhs : List String) : Verdicts := []
def lookupOracles (_z : TimeZone) (_u : Int) (_rhs : List String) : Verdicts := []
def dtfromOracles (_z : TimeZone) (_u _ns : Int) (_rhs : List String) : Verdicts := []
def findOracles (_z : TimeZone) (_y _mo _d _h _mi _s _ns : Int) (_rhs : List String) : Verdicts := []
def findnOracles (_z : TimeZone) (_n : Nat) (_f _stale : Int × Int × Int × Int × Int × Int × Int) (_rhs : List String) : Verdicts := []
def tzifOracles (_b : List Nat) (_rhs : List String) : Verdicts := []
def tzifgenOracles (_v : Nat) (_z : TimeZone) (_b : List Nat) (_rhs : List String) : Verdicts := []
def tzifbadOracles (_cls : String) (_b : List Nat) (_rhs : String) : Verdicts := []
def tzfooterOracles (_v : Nat) (_b : List Nat) (_rhs : List String) : Verdicts := []
def resolveOracles (_dirs : List (List Nat)) (_files : List (List Nat × List Nat)) (_tz : List Nat) (_rhs : List String) : Verdicts := []

end TzVerif.Spec
