/-
Spec layer: POSIX DST rules, written independently of the code's algorithms.

* a rule day is described by what it *means* ("the w-th d-day of month m, or the last one if there are
  fewer", found by scanning the days of the month; "day n of a 365-day calendar"; "n days after
  1 January");
* DST holds on the union of the periods [start(y), end(y)) or [start(y), end(y+1));
* the constructor's consistency condition is the three weak-order clauses over all years.
-/
import TzVerif.Model.Rule
import TzVerif.Spec.Calendar

namespace TzVerif.Spec
open TzVerif.Model

/-- day-of-month (1-based) of the `week`-th `weekDay` of month `m` in year `y`, the last one if there
    are fewer than `week` of them: found by scanning the month -/
def nthWeekdayOfMonth (y m week weekDay : Int) : Int :=
  let first := dayNumber y m 1
  let len := monthLen y m
  let hits := (List.range len.toNat).filter (fun (i : Nat) => weekdayOfDay (first + Int.ofNat i) == weekDay)
  let idx := (week - 1).toNat
  match hits[idx]? with
  | some i => Int.ofNat i + 1
  | none => match hits.getLast? with
    | some i => Int.ofNat i + 1
    | none => 1

/-- day number (days since 1970-01-01) of a rule day in year `y` -/
def ruleDayNumber (d : RuleDay) (y : Int) : Int :=
  match d with
  | .julian1 n => daysBeforeYear y + (n - 1) + (if isLeap y && n ≥ 60 then 1 else 0)   -- never 29 February
  | .julian0 n => daysBeforeYear y + n                                                    -- day 365 of a normal year = 1 Jan next
  | .mwd m w wd => dayNumber y m (nthWeekdayOfMonth y m w wd)

/-- DST-start instant of year `y`: the start day at the start time, read on the standard-time clock -/
def startInstant (a : AlternateTime) (y : Int) : Int :=
  86400 * ruleDayNumber a.dstStart y + a.dstStartTime - a.std.utOffset

/-- DST-end instant of year `y`: the end day at the end time, read on the daylight-time clock -/
def endInstant (a : AlternateTime) (y : Int) : Int :=
  86400 * ruleDayNumber a.dstEnd y + a.dstEndTime - a.dst.utOffset

/-- the three weak-order clauses of C11 ("never change sign") -/
def Consistent (a : AlternateTime) : Prop :=
  ((∀ y, startInstant a y ≤ endInstant a y) ∨ (∀ y, endInstant a y ≤ startInstant a y)) ∧
  ((∀ y, endInstant a y ≤ startInstant a (y + 1)) ∨ (∀ y, startInstant a (y + 1) ≤ endInstant a y)) ∧
  ((∀ y, startInstant a y ≤ endInstant a (y + 1)) ∨ (∀ y, endInstant a (y + 1) ≤ startInstant a y))

def StartFirst (a : AlternateTime) : Prop := ∀ y, startInstant a y ≤ endInstant a y

/-- yearly instants interleave (the quantifier of C04) -/
def Interleaves (a : AlternateTime) : Prop :=
  (∀ y, startInstant a y ≤ endInstant a y ∧ endInstant a y ≤ startInstant a (y + 1)) ∨
  (∀ y, endInstant a y ≤ startInstant a y ∧ startInstant a y ≤ endInstant a (y + 1))

/-- no year in which a reverse-order rule ties (excludes finding F1) -/
def TieFree (a : AlternateTime) : Prop := StartFirst a ∨ ∀ y, endInstant a y < startInstant a y

/-- on daylight time: inside a period that starts at a year's DST start and ends at the following DST end -/
def IsDst (a : AlternateTime) (u : Int) : Prop :=
  (StartFirst a ∧ ∃ y, startInstant a y ≤ u ∧ u < endInstant a y) ∨
  (¬ StartFirst a ∧ ∃ y, startInstant a y ≤ u ∧ u < endInstant a (y + 1))

/-! ### Executable twins (used by the driver's oracles): `∀ y` / `∃ y` over explicit year lists -/

/-- The start/end day of a notation depends on the year only through (leapness, weekday of 1 January),
    and the comparison with the next year adds the next year's leapness: 21 kinds (l, w, l').
    Any 28 consecutive years without a century exception contain all of them: 2001…2028. -/
def kindYears : List Int := (List.range 28).map (fun (i : Nat) => (2001 : Int) + Int.ofNat i)

def allYears (p : Int → Bool) : Bool := kindYears.all p

def consistentB (a : AlternateTime) : Bool :=
  (allYears (fun y => startInstant a y ≤ endInstant a y) || allYears (fun y => endInstant a y ≤ startInstant a y)) &&
  (allYears (fun y => endInstant a y ≤ startInstant a (y + 1)) || allYears (fun y => startInstant a (y + 1) ≤ endInstant a y)) &&
  (allYears (fun y => startInstant a y ≤ endInstant a (y + 1)) || allYears (fun y => endInstant a (y + 1) ≤ startInstant a y))

def startFirstB (a : AlternateTime) : Bool := allYears (fun y => startInstant a y ≤ endInstant a y)

def interleavesB (a : AlternateTime) : Bool :=
  allYears (fun y => startInstant a y ≤ endInstant a y && endInstant a y ≤ startInstant a (y + 1)) ||
  allYears (fun y => endInstant a y ≤ startInstant a y && startInstant a y ≤ endInstant a (y + 1))

def tieFreeB (a : AlternateTime) : Bool := startFirstB a || allYears (fun y => endInstant a y < startInstant a y)

/-- approximate civil year of an instant (exact within ±1), enough to pick a window of years -/
def approxYear (u : Int) : Int := 1970 + u / 31556952

def isDstB (a : AlternateTime) (u : Int) : Bool :=
  let y0 := approxYear u
  let ys := (List.range 7).map (fun (i : Nat) => y0 - 3 + Int.ofNat i)
  if startFirstB a then ys.any (fun y => startInstant a y ≤ u && u < endInstant a y)
  else ys.any (fun y => startInstant a y ≤ u && u < endInstant a (y + 1))

/-- known-finding classes (DESIGN §2): F1 reverse order with a tie in some years; F2 periods overlap -/
def classReverseTie (a : AlternateTime) : Bool :=
  allYears (fun y => endInstant a y ≤ startInstant a y) && kindYears.any (fun y => endInstant a y == startInstant a y) &&
  kindYears.any (fun y => endInstant a y < startInstant a y)

def classOverlap (a : AlternateTime) : Bool := !interleavesB a

end TzVerif.Spec
