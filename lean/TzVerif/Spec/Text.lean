/-
Spec layer: an independent, strict reader for the text form of C18.
It accepts exactly: optional '-', the unpadded decimal year (no leading zeros, no "-0"),
"-MM-DDTHH:MM:SS." two-digit fields, nine nanosecond digits, then either "Z" or a sign, at least two
hour digits (no superfluous leading zero beyond two), ":MM" and optionally ":SS" with SS ≠ 00; an
offset text denoting zero is refused ('Z' is the only spelling of offset 0).
-/
namespace TzVerif.Spec

structure Rendered where
  year : Int
  month : Int
  day : Int
  hour : Int
  minute : Int
  second : Int
  nanoseconds : Int
  offset : Int
  deriving DecidableEq, Repr

def isDigit (c : Char) : Bool := '0' ≤ c && c ≤ '9'

def digitValue (c : Char) : Nat := c.toNat - 48

/-- value of a digit string (most significant first) -/
def digitsValue (ds : List Char) : Nat := ds.foldl (fun acc c => acc * 10 + digitValue c) 0

/-- longest prefix of digits -/
def spanDigits : List Char → List Char × List Char
  | [] => ([], [])
  | c :: cs => if isDigit c then let (p, r) := spanDigits cs; (c :: p, r) else ([], c :: cs)

def two (a b : Char) : Option Nat := if isDigit a && isDigit b then some (digitValue a * 10 + digitValue b) else none

def readOffset (s : List Char) : Option Int :=
  match s with
  | ['Z'] => some 0
  | sg :: rest =>
    if sg ≠ '+' ∧ sg ≠ '-' then none else
    let (hd, rest) := spanDigits rest
    if hd.length < 2 ∨ (hd.length > 2 ∧ hd.head? = some '0') then none else
    let hours := digitsValue hd
    let tail : Option (Nat × Nat) :=
      match rest with
      | [':', a, b] => (two a b).map (fun m => (m, 0))
      | [':', a, b, ':', c, d] =>
        match two a b, two c d with
        | some m, some s => if s = 0 then none else some (m, s)
        | _, _ => none
      | _ => none
    match tail with
    | none => none
    | some (m, s) =>
      if m ≥ 60 ∨ s ≥ 60 then none else
      let total : Int := hours * 3600 + m * 60 + s
      if total = 0 then none else some (if sg = '-' then -total else total)
  | [] => none

def readBack (s : List Char) : Option Rendered :=
  let (neg, s) : Bool × List Char := match s with
    | '-' :: r => (true, r)
    | _ => (false, s)
  let (yd, s) := spanDigits s
  if yd.isEmpty || (yd.length > 1 && yd.head? == some '0') || (neg && yd == ['0']) then none else
  let year : Int := if neg then -(digitsValue yd : Int) else digitsValue yd
  match s with
  | '-' :: m1 :: m2 :: '-' :: d1 :: d2 :: 'T' :: h1 :: h2 :: ':' :: i1 :: i2 :: ':' :: s1 :: s2 :: '.' :: rest =>
    let nsd := rest.take 9
    let rest := rest.drop 9
    if nsd.length ≠ 9 ∨ ¬ nsd.all isDigit then none else
    match two m1 m2, two d1 d2, two h1 h2, two i1 i2, two s1 s2, readOffset rest with
    | some mo, some d, some h, some mi, some sec, some off =>
      some { year, month := mo, day := d, hour := h, minute := mi, second := sec,
             nanoseconds := digitsValue nsd, offset := off }
    | _, _, _, _, _, _ => none
  | _ => none

end TzVerif.Spec
