/-
Line-protocol codec shared by the native driver: token parser and canonical printers.
See DESIGN.md §4.2. Everything here is plumbing (not part of any theorem).
-/
import TzVerif.Model.TzFile
import TzVerif.Model.Find

namespace TzVerif.Driver
open TzVerif.Model

abbrev P := StateT (List String) (Except String)

def tok : P String := do
  match (← get) with
  | [] => throw "unexpected end of line"
  | t :: ts => set ts; pure t

def peek? : P (Option String) := do
  match (← get) with
  | [] => pure none
  | t :: _ => pure (some t)

def expect (s : String) : P Unit := do
  let t ← tok
  if t != s then throw s!"expected {s}, got {t}"

def int : P Int := do
  let t ← tok
  match t.toInt? with
  | some v => pure v
  | none => throw s!"bad int {t}"

def nat : P Nat := do
  let v ← int
  if v < 0 then throw "negative count" else pure v.toNat

def bool : P Bool := do
  let v ← int
  pure (v != 0)

def hexVal (c : Char) : Option Nat :=
  if '0' ≤ c ∧ c ≤ '9' then some (c.toNat - 48)
  else if 'a' ≤ c ∧ c ≤ 'f' then some (c.toNat - 87)
  else if 'A' ≤ c ∧ c ≤ 'F' then some (c.toNat - 55)
  else none

def hexDecode (s : String) : Option (List Nat) :=
  let rec go : List Char → List Nat → Option (List Nat)
    | [], acc => some acc.reverse
    | [_], _ => none
    | a :: b :: rest, acc =>
      match hexVal a, hexVal b with
      | some x, some y => go rest ((x * 16 + y) :: acc)
      | _, _ => none
  go s.toList []

def hexDigit (n : Nat) : Char := if n < 10 then Char.ofNat (48 + n) else Char.ofNat (87 + n)

def hexEncode (b : List Nat) : String :=
  String.ofList (b.flatMap fun x => [hexDigit (x / 16), hexDigit (x % 16)])

/-- bytes token: `x<hex>` (possibly empty hex) -/
def bytes : P (List Nat) := do
  let t ← tok
  if t.startsWith "x" then
    match hexDecode (t.drop 1).toString with
    | some b => pure b
    | none => throw s!"bad hex {t}"
  else throw s!"expected x<hex>, got {t}"

/-- optional name: `_` or `x<hex>` -/
def optName : P (Option (List Nat)) := do
  match (← peek?) with
  | some "_" => let _ ← tok; pure none
  | _ => let b ← bytes; pure (some b)

def ltt : P LocalTimeType := do
  let off ← int
  let dst ← bool
  let name ← optName
  pure { utOffset := off, isDst := dst, name }

def ruleDay : P RuleDay := do
  let t ← tok
  let body := (t.drop 1).toString
  if t.startsWith "J" then
    match body.toInt? with | some n => pure (.julian1 n) | none => throw s!"bad day {t}"
  else if t.startsWith "Z" then
    match body.toInt? with | some n => pure (.julian0 n) | none => throw s!"bad day {t}"
  else if t.startsWith "M" then
    match body.splitOn "." with
    | [a, b, c] =>
      match a.toInt?, b.toInt?, c.toInt? with
      | some m, some w, some d => pure (.mwd m w d)
      | _, _, _ => throw s!"bad day {t}"
    | _ => throw s!"bad day {t}"
  else throw s!"bad day {t}"

/-- raw alternate rule (not yet validated): std dst start startTime end endTime -/
def altRaw : P (LocalTimeType × LocalTimeType × RuleDay × Int × RuleDay × Int) := do
  let std ← ltt
  let dst ← ltt
  let ds ← ruleDay
  let st ← int
  let de ← ruleDay
  let et ← int
  pure (std, dst, ds, st, de, et)

def rule : P (Option TransitionRule) := do
  let t ← tok
  if t == "N" then pure none
  else if t == "F" then
    let l ← ltt
    pure (some (.fixed l))
  else if t == "A" then
    let (std, dst, ds, st, de, et) ← altRaw
    pure (some (.alternate { std, dst, dstStart := ds, dstStartTime := st, dstEnd := de, dstEndTime := et }))
  else throw s!"bad rule tag {t}"

def repeatP {α} (n : Nat) (p : P α) : P (List α) := do
  let mut acc : Array α := #[]
  for _ in [0:n] do
    acc := acc.push (← p)
  pure acc.toList

def zone : P TimeZone := do
  expect "T"
  let n ← nat
  let ts ← repeatP n (do let t ← int; let i ← nat; pure ({ unixLeapTime := t, localTimeTypeIndex := i } : Transition))
  expect "Y"
  let n ← nat
  let ys ← repeatP n ltt
  expect "L"
  let n ← nat
  let ls ← repeatP n (do let t ← int; let c ← int; pure ({ unixLeapTime := t, correction := c } : LeapSecond))
  expect "R"
  let r ← rule
  pure { transitions := ts, localTimeTypes := ys, leapSeconds := ls, extraRule := r }

/-! printers -/

def showName : Option (List Nat) → String
  | none => "_"
  | some b => "x" ++ hexEncode b

def showLtt (l : LocalTimeType) : String :=
  s!"{l.utOffset} {if l.isDst then 1 else 0} {showName l.name}"

def showDay : RuleDay → String
  | .julian1 n => s!"J{n}"
  | .julian0 n => s!"Z{n}"
  | .mwd m w d => s!"M{m}.{w}.{d}"

def showRule : Option TransitionRule → String
  | none => "N"
  | some (.fixed l) => "F " ++ showLtt l
  | some (.alternate a) =>
    s!"A {showLtt a.std} {showLtt a.dst} {showDay a.dstStart} {a.dstStartTime} {showDay a.dstEnd} {a.dstEndTime}"

def showZone (z : TimeZone) : String :=
  let ts := z.transitions.foldl (fun s t => s ++ s!" {t.unixLeapTime} {t.localTimeTypeIndex}") ""
  let ys := z.localTimeTypes.foldl (fun s t => s ++ " " ++ showLtt t) ""
  let ls := z.leapSeconds.foldl (fun s t => s ++ s!" {t.unixLeapTime} {t.correction}") ""
  s!"T {z.transitions.length}{ts} Y {z.localTimeTypes.length}{ys} L {z.leapSeconds.length}{ls} R {showRule z.extraRule}"

def showDt (d : DateTime) : String :=
  s!"D {d.year} {d.month} {d.monthDay} {d.hour} {d.minute} {d.second} {d.nanoseconds} {showLtt d.localTimeType} {d.unixTime}"

def showFound : Found → String
  | .normal d => "N " ++ showDt d
  | .skipped b a => "S " ++ showDt b ++ " " ++ showDt a

def showFoundList (l : List Found) : String :=
  l.foldl (fun s f => s ++ " " ++ showFound f) s!"[ {l.length}" ++ " ]"

def showOptDt : Option DateTime → String
  | none => "-"
  | some d => showDt d

def showTz {α} (f : α → String) : Except TzError α → String
  | .ok a => f a
  | .error e => e.text

def showE {α} (f : α → String) : Except Error α → String
  | .ok a => f a
  | .error e => e.text

/-- parse a `D …` date-time from the implementation's answer -/
def dt : P DateTime := do
  expect "D"
  let y ← int; let mo ← int; let d ← int; let h ← int; let mi ← int; let s ← int; let ns ← int
  let l ← ltt
  let u ← int
  pure { year := y, month := mo, monthDay := d, hour := h, minute := mi, second := s, localTimeType := l, unixTime := u, nanoseconds := ns }

def found : P Found := do
  let t ← tok
  if t == "N" then pure (.normal (← dt))
  else if t == "S" then
    let b ← dt
    let a ← dt
    pure (.skipped b a)
  else throw s!"bad found tag {t}"

def foundList : P (List Found) := do
  expect "["
  let n ← nat
  let l ← repeatP n found
  expect "]"
  pure l

def runP {α} (p : P α) (toks : List String) : Except String α :=
  match p.run toks with
  | .ok (a, _) => .ok a
  | .error e => .error e

end TzVerif.Driver
