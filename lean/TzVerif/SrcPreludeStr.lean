/-
Prelude of the Rust → Lean translation, part 2: `&str` as its UTF-8 bytes. MODELLED (DESIGN trusted base): the
methods used by `parse_footer` are given byte-level meanings that coincide with the `str` methods on valid UTF-8 for the
ASCII arguments they are called with; `str::from_utf8` accepts exactly well-formed UTF-8 (`Model.validUtf8`, a
transcription of Unicode Table 3-7).
-/
import TzVerif.SrcPrelude
import TzVerif.Model.TzFile

namespace TzVerif.Src

/-- `str::from_utf8(bytes).map_err(TzFileError::from)` -/
def str_from_utf8_tzfile (b : List Nat) : Except TzVerif.Model.TzFileError (List Nat) :=
  if TzVerif.Model.validUtf8 b then .ok b else .error .utf8

/-- `char::is_ascii_whitespace` on a byte of valid UTF-8: space, tab, LF, FF, CR -/
def char_is_ascii_whitespace (c : Nat) : Bool := TzVerif.Model.isAsciiWhitespace c

/-- `str::trim_matches(p)` for an ASCII predicate, at the byte level -/
def str_trim_matches (p : Nat → Bool) (s : List Nat) : List Nat :=
  ((s.dropWhile p).reverse.dropWhile p).reverse

end TzVerif.Src
