/-
Model layer, part 1: integer ranges, error enums, basic structures.
Import-free apart from the generated constants so it links into the native driver.
One Lean `def` per Rust `fn`; each carries a `-- src/...` anchor.
-/
import TzVerif.Generated.Consts

namespace TzVerif.Model

instance {ε α} [DecidableEq ε] [DecidableEq α] : DecidableEq (Except ε α) := fun a b =>
  match a, b with
  | .ok x, .ok y => if h : x = y then isTrue (by rw [h]) else isFalse (by intro e; cases e; exact h rfl)
  | .error x, .error y => if h : x = y then isTrue (by rw [h]) else isFalse (by intro e; cases e; exact h rfl)
  | .ok _, .error _ => isFalse (by intro e; cases e)
  | .error _, .ok _ => isFalse (by intro e; cases e)

def i64Min : Int := -9223372036854775808
def i64Max : Int := 9223372036854775807
def i32Min : Int := -2147483648
def i32Max : Int := 2147483647

-- src/error/datetime.rs
inductive DateTimeError where
  | invalidMonth | invalidMonthDay | invalidHour | invalidMinute | invalidSecond | invalidNanoseconds
  deriving DecidableEq, Repr, Inhabited

-- src/error/timezone.rs
inductive LocalTimeTypeError where
  | invalidTimeZoneDesignationLength | invalidTimeZoneDesignationChar | invalidUtcOffset
  deriving DecidableEq, Repr, Inhabited

inductive TransitionRuleError where
  | invalidRuleDayJulianDay | invalidRuleDayMonth | invalidRuleDayWeek | invalidRuleDayWeekDay
  | invalidStdUtcOffset | invalidDstUtcOffset | invalidDstStartEndTime | inconsistentRule
  deriving DecidableEq, Repr, Inhabited

inductive TimeZoneError where
  | noLocalTimeType | invalidLocalTimeTypeIndex | invalidTransition | invalidLeapSecond | inconsistentExtraRule
  deriving DecidableEq, Repr, Inhabited

-- src/error/parse.rs
inductive ParseDataError where
  | unexpectedEof | invalidData
  deriving DecidableEq, Repr, Inhabited

inductive TzStringError where
  | utf8 | parseInt | parseData (e : ParseDataError)
  | invalidOffsetHour | invalidOffsetMinute | invalidOffsetSecond
  | invalidDayTimeHour | invalidDayTimeMinute | invalidDayTimeSecond
  | missingDstStartEndRules | remainingData | empty
  deriving DecidableEq, Repr, Inhabited

inductive TzFileError where
  | utf8 | parseData (e : ParseDataError)
  | invalidMagicNumber | unsupportedTzFileVersion | invalidHeader | invalidFooter
  | invalidDstIndicator | invalidTimeZoneDesignationCharIndex | invalidStdWallUtLocal | remainingDataV1
  deriving DecidableEq, Repr, Inhabited

-- src/error/mod.rs
inductive TzError where
  | tzFile (e : TzFileError) | tzString (e : TzStringError) | localTimeType (e : LocalTimeTypeError)
  | transitionRule (e : TransitionRuleError) | timeZone (e : TimeZoneError) | dateTime (e : DateTimeError)
  | outOfRange | noAvailableLocalTimeType
  deriving DecidableEq, Repr, Inhabited

inductive Error where
  | io | tz (e : TzError)
  deriving DecidableEq, Repr, Inhabited

/-- Canonical text of an error, shared with the harness (`Err:<Enum>.<Variant>`). -/
def ParseDataError.text : ParseDataError → String
  | .unexpectedEof => "UnexpectedEof" | .invalidData => "InvalidData"

def TzError.text : TzError → String
  | .tzFile .utf8 => "Err:TzFile.Utf8"
  | .tzFile (.parseData e) => "Err:TzFile.ParseData." ++ e.text
  | .tzFile .invalidMagicNumber => "Err:TzFile.InvalidMagicNumber"
  | .tzFile .unsupportedTzFileVersion => "Err:TzFile.UnsupportedTzFileVersion"
  | .tzFile .invalidHeader => "Err:TzFile.InvalidHeader"
  | .tzFile .invalidFooter => "Err:TzFile.InvalidFooter"
  | .tzFile .invalidDstIndicator => "Err:TzFile.InvalidDstIndicator"
  | .tzFile .invalidTimeZoneDesignationCharIndex => "Err:TzFile.InvalidTimeZoneDesignationCharIndex"
  | .tzFile .invalidStdWallUtLocal => "Err:TzFile.InvalidStdWallUtLocal"
  | .tzFile .remainingDataV1 => "Err:TzFile.RemainingDataV1"
  | .tzString .utf8 => "Err:TzString.Utf8"
  | .tzString .parseInt => "Err:TzString.ParseInt"
  | .tzString (.parseData e) => "Err:TzString.ParseData." ++ e.text
  | .tzString .invalidOffsetHour => "Err:TzString.InvalidOffsetHour"
  | .tzString .invalidOffsetMinute => "Err:TzString.InvalidOffsetMinute"
  | .tzString .invalidOffsetSecond => "Err:TzString.InvalidOffsetSecond"
  | .tzString .invalidDayTimeHour => "Err:TzString.InvalidDayTimeHour"
  | .tzString .invalidDayTimeMinute => "Err:TzString.InvalidDayTimeMinute"
  | .tzString .invalidDayTimeSecond => "Err:TzString.InvalidDayTimeSecond"
  | .tzString .missingDstStartEndRules => "Err:TzString.MissingDstStartEndRules"
  | .tzString .remainingData => "Err:TzString.RemainingData"
  | .tzString .empty => "Err:TzString.Empty"
  | .localTimeType .invalidTimeZoneDesignationLength => "Err:LocalTimeType.InvalidTimeZoneDesignationLength"
  | .localTimeType .invalidTimeZoneDesignationChar => "Err:LocalTimeType.InvalidTimeZoneDesignationChar"
  | .localTimeType .invalidUtcOffset => "Err:LocalTimeType.InvalidUtcOffset"
  | .transitionRule .invalidRuleDayJulianDay => "Err:TransitionRule.InvalidRuleDayJulianDay"
  | .transitionRule .invalidRuleDayMonth => "Err:TransitionRule.InvalidRuleDayMonth"
  | .transitionRule .invalidRuleDayWeek => "Err:TransitionRule.InvalidRuleDayWeek"
  | .transitionRule .invalidRuleDayWeekDay => "Err:TransitionRule.InvalidRuleDayWeekDay"
  | .transitionRule .invalidStdUtcOffset => "Err:TransitionRule.InvalidStdUtcOffset"
  | .transitionRule .invalidDstUtcOffset => "Err:TransitionRule.InvalidDstUtcOffset"
  | .transitionRule .invalidDstStartEndTime => "Err:TransitionRule.InvalidDstStartEndTime"
  | .transitionRule .inconsistentRule => "Err:TransitionRule.InconsistentRule"
  | .timeZone .noLocalTimeType => "Err:TimeZone.NoLocalTimeType"
  | .timeZone .invalidLocalTimeTypeIndex => "Err:TimeZone.InvalidLocalTimeTypeIndex"
  | .timeZone .invalidTransition => "Err:TimeZone.InvalidTransition"
  | .timeZone .invalidLeapSecond => "Err:TimeZone.InvalidLeapSecond"
  | .timeZone .inconsistentExtraRule => "Err:TimeZone.InconsistentExtraRule"
  | .dateTime .invalidMonth => "Err:DateTime.InvalidMonth"
  | .dateTime .invalidMonthDay => "Err:DateTime.InvalidMonthDay"
  | .dateTime .invalidHour => "Err:DateTime.InvalidHour"
  | .dateTime .invalidMinute => "Err:DateTime.InvalidMinute"
  | .dateTime .invalidSecond => "Err:DateTime.InvalidSecond"
  | .dateTime .invalidNanoseconds => "Err:DateTime.InvalidNanoseconds"
  | .outOfRange => "Err:OutOfRange"
  | .noAvailableLocalTimeType => "Err:NoAvailableLocalTimeType"

def Error.text : Error → String
  | .io => "Err:Io"
  | .tz e => e.text

/-- `src/timezone/mod.rs` `LocalTimeType`. The designation is the byte list (`none` = no designation). -/
structure LocalTimeType where
  utOffset : Int
  isDst : Bool
  name : Option (List Nat)
  deriving DecidableEq, Repr, Inhabited

structure Transition where
  unixLeapTime : Int
  localTimeTypeIndex : Nat
  deriving DecidableEq, Repr, Inhabited

structure LeapSecond where
  unixLeapTime : Int
  correction : Int
  deriving DecidableEq, Repr, Inhabited

/-- `src/timezone/rule.rs` `RuleDay` -/
inductive RuleDay where
  | julian1 (n : Int)          -- Julian1WithoutLeap, `Jn`
  | julian0 (n : Int)          -- Julian0WithLeap, `n`
  | mwd (month week weekDay : Int)  -- MonthWeekDay, `Mm.w.d`
  deriving DecidableEq, Repr, Inhabited

structure AlternateTime where
  std : LocalTimeType
  dst : LocalTimeType
  dstStart : RuleDay
  dstStartTime : Int
  dstEnd : RuleDay
  dstEndTime : Int
  deriving DecidableEq, Repr, Inhabited

inductive TransitionRule where
  | fixed (t : LocalTimeType)
  | alternate (a : AlternateTime)
  deriving DecidableEq, Repr, Inhabited

structure TimeZone where
  transitions : List Transition
  localTimeTypes : List LocalTimeType
  leapSeconds : List LeapSecond
  extraRule : Option TransitionRule
  deriving DecidableEq, Repr, Inhabited

/-- `UtcDateTime` -/
structure UtcDateTime where
  year : Int
  month : Int
  monthDay : Int
  hour : Int
  minute : Int
  second : Int
  nanoseconds : Int
  deriving DecidableEq, Repr, Inhabited

/-- `DateTime` -/
structure DateTime where
  year : Int
  month : Int
  monthDay : Int
  hour : Int
  minute : Int
  second : Int
  localTimeType : LocalTimeType
  unixTime : Int
  nanoseconds : Int
  deriving DecidableEq, Repr, Inhabited

inductive Found where
  | normal (d : DateTime)
  | skipped (before after : DateTime)
  deriving DecidableEq, Repr, Inhabited

end TzVerif.Model
