/-
Model of src/parse/utils.rs (cursor helpers) and src/parse/tz_string.rs (POSIX TZ string parser).
A cursor is the remaining byte list; every helper returns the value and the new cursor.
-/
import TzVerif.Model.TimeZone

namespace TzVerif.Model
open TzVerif.Gen

abbrev Bytes := List Nat

-- src/parse/utils.rs `read_exact`
def readExact (c : Bytes) (n : Nat) : Except ParseDataError (Bytes × Bytes) :=
  if n ≤ c.length then .ok (c.take n, c.drop n) else .error .unexpectedEof

/-- `cursor.iter().position(|x| !f(x)).unwrap_or(len)` then `read_exact`: the longest prefix satisfying `f` -/
def spanWhile (f : Nat → Bool) : Bytes → Bytes × Bytes
  | [] => ([], [])
  | b :: bs => if f b then let (p, r) := spanWhile f bs; (b :: p, r) else ([], b :: bs)

-- src/parse/utils.rs `read_while`, `read_until`
def readWhile (c : Bytes) (f : Nat → Bool) : Bytes × Bytes := spanWhile f c
def readUntil (c : Bytes) (f : Nat → Bool) : Bytes × Bytes := spanWhile (fun b => !f b) c

-- src/parse/utils.rs `read_tag`
def readTag (c : Bytes) (tag : Bytes) : Except ParseDataError Bytes :=
  match readExact c tag.length with
  | .error e => .error e
  | .ok (x, rest) => if x = tag then .ok rest else .error .invalidData

-- src/parse/utils.rs `read_optional_tag` (single-byte tags only are used)
def readOptionalTag (c : Bytes) (tag : Nat) : Bool × Bytes :=
  match c with
  | b :: rest => if b = tag then (true, rest) else (false, c)
  | [] => (false, c)

def isAsciiDigit (b : Nat) : Bool := 48 ≤ b && b ≤ 57
def isAsciiAlphabetic (b : Nat) : Bool := (65 ≤ b && b ≤ 90) || (97 ≤ b && b ≤ 122)
/-- `char::is_ascii_whitespace`: space, tab, LF, FF, CR -/
def isAsciiWhitespace (b : Nat) : Bool := b == 32 || b == 9 || b == 10 || b == 12 || b == 13

/-- value of an all-digit byte string -/
def digitsValue (ds : Bytes) : Nat := ds.foldl (fun acc d => acc * 10 + (d - 48)) 0

/-- `str::parse::<T>()` on an all-digit slice for an integer type with maximum `max`:
    empty → error, overflow → error (modelled, see DESIGN trusted base 4) -/
def parseInt (max : Nat) (ds : Bytes) : Except TzStringError Int :=
  if ds.isEmpty then .error .parseInt
  else
    let v := digitsValue ds
    if v > max then .error .parseInt else .ok v

def maxI32 : Nat := 2147483647
def maxU16 : Nat := 65535
def maxU8 : Nat := 255

-- src/parse/tz_string.rs `parse_time_zone_designation`
def parseTimeZoneDesignation (c : Bytes) : Except ParseDataError (Bytes × Bytes) :=
  match c with
  | 60 :: rest =>  -- '<'
    let (name, rest) := readUntil rest (· == 62)  -- '>'
    match readExact rest 1 with
    | .error e => .error e
    | .ok (_, rest) => .ok (name, rest)
  | _ => .ok (readWhile c isAsciiAlphabetic)

-- src/parse/tz_string.rs `parse_hhmmss`
def parseHhmmss (c : Bytes) : Except TzStringError ((Int × Int × Int) × Bytes) :=
  let (hd, c) := readWhile c isAsciiDigit
  match parseInt maxI32 hd with
  | .error e => .error e
  | .ok hour =>
    match readOptionalTag c 58 with  -- ':'
    | (false, c) => .ok ((hour, 0, 0), c)
    | (true, c) =>
      let (md, c) := readWhile c isAsciiDigit
      match parseInt maxI32 md with
      | .error e => .error e
      | .ok minute =>
        match readOptionalTag c 58 with
        | (false, c) => .ok ((hour, minute, 0), c)
        | (true, c) =>
          let (sd, c) := readWhile c isAsciiDigit
          match parseInt maxI32 sd with
          | .error e => .error e
          | .ok second => .ok ((hour, minute, second), c)

-- src/parse/tz_string.rs `parse_signed_hhmmss`
def parseSignedHhmmss (c : Bytes) : Except TzStringError ((Int × Int × Int × Int) × Bytes) :=
  let (sign, c) : Int × Bytes :=
    match c with
    | 43 :: rest => (1, rest)   -- '+'
    | 45 :: rest => (-1, rest)  -- '-'
    | _ => (1, c)
  match parseHhmmss c with
  | .error e => .error e
  | .ok ((h, m, s), c) => .ok ((sign, h, m, s), c)

-- src/parse/tz_string.rs `parse_offset`
def parseOffset (c : Bytes) : Except TzStringError (Int × Bytes) :=
  match parseSignedHhmmss c with
  | .error e => .error e
  | .ok ((sign, h, m, s), c) =>
    if !(0 ≤ h && h ≤ guardOffsetHourMax) then .error .invalidOffsetHour
    else if !(0 ≤ m && m ≤ 59) then .error .invalidOffsetMinute
    else if !(0 ≤ s && s ≤ 59) then .error .invalidOffsetSecond
    else .ok (sign * (h * 3600 + m * 60 + s), c)

/-- lift of a `TransitionRuleError` / `TzStringError` into `TzError` (the `?` conversions) -/
def liftRule {α} : Except TransitionRuleError α → Except TzError α
  | .ok a => .ok a
  | .error e => .error (.transitionRule e)

def liftStr {α} : Except TzStringError α → Except TzError α
  | .ok a => .ok a
  | .error e => .error (.tzString e)

def liftData {α} : Except ParseDataError α → Except TzError α
  | .ok a => .ok a
  | .error e => .error (.tzString (.parseData e))

def liftLtt {α} : Except LocalTimeTypeError α → Except TzError α
  | .ok a => .ok a
  | .error e => .error (.localTimeType e)

-- src/parse/tz_string.rs `parse_rule_day`
def parseRuleDay (c : Bytes) : Except TzError (RuleDay × Bytes) :=
  match c with
  | 74 :: rest =>  -- 'J'
    let (ds, c) := readWhile rest isAsciiDigit
    match parseInt maxU16 ds with
    | .error e => .error (.tzString e)
    | .ok n => match RuleDay.newJulian1 n with
      | .error e => .error (.transitionRule e)
      | .ok d => .ok (d, c)
  | 77 :: rest =>  -- 'M'
    let (ds, c) := readWhile rest isAsciiDigit
    match parseInt maxU8 ds with
    | .error e => .error (.tzString e)
    | .ok month =>
      match readTag c [46] with  -- '.'
      | .error e => .error (.tzString (.parseData e))
      | .ok c =>
        let (ds, c) := readWhile c isAsciiDigit
        match parseInt maxU8 ds with
        | .error e => .error (.tzString e)
        | .ok week =>
          match readTag c [46] with
          | .error e => .error (.tzString (.parseData e))
          | .ok c =>
            let (ds, c) := readWhile c isAsciiDigit
            match parseInt maxU8 ds with
            | .error e => .error (.tzString e)
            | .ok weekDay =>
              match RuleDay.newMwd month week weekDay with
              | .error e => .error (.transitionRule e)
              | .ok d => .ok (d, c)
  | _ =>
    let (ds, c) := readWhile c isAsciiDigit
    match parseInt maxU16 ds with
    | .error e => .error (.tzString e)
    | .ok n => match RuleDay.newJulian0 n with
      | .error e => .error (.transitionRule e)
      | .ok d => .ok (d, c)

-- src/parse/tz_string.rs `parse_rule_time`
def parseRuleTime (c : Bytes) : Except TzStringError (Int × Bytes) :=
  match parseHhmmss c with
  | .error e => .error e
  | .ok ((h, m, s), c) =>
    if !(0 ≤ h && h ≤ guardRuleTimeHourMax) then .error .invalidDayTimeHour
    else if !(0 ≤ m && m ≤ 59) then .error .invalidDayTimeMinute
    else if !(0 ≤ s && s ≤ 59) then .error .invalidDayTimeSecond
    else .ok (h * 3600 + m * 60 + s, c)

-- src/parse/tz_string.rs `parse_rule_time_extended`
def parseRuleTimeExtended (c : Bytes) : Except TzStringError (Int × Bytes) :=
  match parseSignedHhmmss c with
  | .error e => .error e
  | .ok ((sign, h, m, s), c) =>
    if !(guardRuleTimeExtHourMin ≤ h && h ≤ guardRuleTimeExtHourMax) then .error .invalidDayTimeHour
    else if !(0 ≤ m && m ≤ 59) then .error .invalidDayTimeMinute
    else if !(0 ≤ s && s ≤ 59) then .error .invalidDayTimeSecond
    else .ok (sign * (h * 3600 + m * 60 + s), c)

-- src/parse/tz_string.rs `parse_rule_block`
def parseRuleBlock (c : Bytes) (ext : Bool) : Except TzError ((RuleDay × Int) × Bytes) :=
  match parseRuleDay c with
  | .error e => .error e
  | .ok (date, c) =>
    match readOptionalTag c 47 with  -- '/'
    | (true, c) =>
      match (if ext then parseRuleTimeExtended c else parseRuleTime c) with
      | .error e => .error (.tzString e)
      | .ok (t, c) => .ok ((date, t), c)
    | (false, c) => .ok ((date, guardDefaultRuleTimeHours * 3600), c)

-- src/parse/tz_string.rs `parse_posix_tz`
def parsePosixTz (s : Bytes) (ext : Bool) : Except TzError TransitionRule :=
  match parseTimeZoneDesignation s with
  | .error e => .error (.tzString (.parseData e))
  | .ok (stdName, c) =>
  match parseOffset c with
  | .error e => .error (.tzString e)
  | .ok (stdOffset, c) =>
  if c.isEmpty then
    match LocalTimeType.new (-stdOffset) false (some stdName) with
    | .error e => .error (.localTimeType e)
    | .ok t => .ok (.fixed t)
  else
  match parseTimeZoneDesignation c with
  | .error e => .error (.tzString (.parseData e))
  | .ok (dstName, c) =>
  let dstOffsetR : Except TzError (Int × Bytes) :=
    match c with
    | 44 :: _ => .ok (stdOffset - guardDefaultDstShift, c)  -- ','
    | _ :: _ => liftStr (parseOffset c)
    | [] => .error (.tzString .missingDstStartEndRules)
  match dstOffsetR with
  | .error e => .error e
  | .ok (dstOffset, c) =>
  if c.isEmpty then .error (.tzString .missingDstStartEndRules) else
  match readTag c [44] with
  | .error e => .error (.tzString (.parseData e))
  | .ok c =>
  match parseRuleBlock c ext with
  | .error e => .error e
  | .ok ((dstStart, dstStartTime), c) =>
  match readTag c [44] with
  | .error e => .error (.tzString (.parseData e))
  | .ok c =>
  match parseRuleBlock c ext with
  | .error e => .error e
  | .ok ((dstEnd, dstEndTime), c) =>
  if !c.isEmpty then .error (.tzString .remainingData) else
  match LocalTimeType.new (-stdOffset) false (some stdName) with
  | .error e => .error (.localTimeType e)
  | .ok std =>
  match LocalTimeType.new (-dstOffset) true (some dstName) with
  | .error e => .error (.localTimeType e)
  | .ok dst =>
  match AlternateTime.new std dst dstStart dstStartTime dstEnd dstEndTime with
  | .error e => .error (.transitionRule e)
  | .ok a => .ok (.alternate a)

end TzVerif.Model
