/-
Model of src/datetime/find.rs: the local-time search and the two result containers.
The search is written as a function returning the pushed sequence; the containers are models of
`FoundDateTimeList` (the sequence itself) and `FoundDateTimeListRefMut` (buffer, index, count).
-/
import TzVerif.Model.TimeZone

namespace TzVerif.Model
open TzVerif.Gen

/-- `new_datetime` closure of `find_date_time` -/
def mkDateTime (year month monthDay hour minute second nanoseconds : Int) (ltt : LocalTimeType) (ut : Int) : DateTime :=
  { year, month, monthDay, hour, minute, second, localTimeType := ltt, unixTime := ut, nanoseconds }

/-- `get_time` closure (the cache only avoids recomputation) -/
def getTime (z : TimeZone) (utcUnixTime : Int) (typeIndex : Nat) : Except TzError (Int × Int) :=
  let ut := utcUnixTime - (z.localTimeTypes.getD typeIndex default).utOffset
  match unixTimeToUnixLeapTime z.leapSeconds ut with
  | .error e => .error e
  | .ok ult => .ok (ut, ult)

/-- the `for (index, transition) in transitions.iter().enumerate()` loop.
    `remaining` counts the transitions after the current one (so `index < len - 1` is `rest ≠ []`). -/
def findTransitionsLoop (z : TimeZone) (mk : LocalTimeType → Int → DateTime) (ns utcUnixTime : Int) (hasRule : Bool) :
    List Transition → Int → Nat → List Found → Except TzError (List Found)
  | [], _, _, acc => .ok acc
  | tr :: rest, prevTime, prevIdx, acc =>
    let lttBefore := z.localTimeTypes.getD prevIdx default
    match getTime z utcUnixTime prevIdx with
    | .error e => .error e
    | .ok (utBefore, ultBefore) =>
      if prevTime ≤ ultBefore ∧ ultBefore < tr.unixLeapTime then
        match checkUnixTime utBefore with
        | .error e => .error e
        | .ok () => findTransitionsLoop z mk ns utcUnixTime hasRule rest tr.unixLeapTime tr.localTimeTypeIndex
                      (acc ++ [.normal (mk lttBefore utBefore)])
      else if !rest.isEmpty || hasRule then
        let lttAfter := z.localTimeTypes.getD tr.localTimeTypeIndex default
        match getTime z utcUnixTime tr.localTimeTypeIndex with
        | .error e => .error e
        | .ok (_, ultAfter) =>
          if ultBefore ≥ tr.unixLeapTime ∧ ultAfter < tr.unixLeapTime then
            match unixLeapTimeToUnixTime z.leapSeconds tr.unixLeapTime with
            | .error e => .error e
            | .ok tut =>
              match DateTime.fromTimespecAndLocal tut ns lttBefore with
              | .error e => .error e
              | .ok b =>
                match DateTime.fromTimespecAndLocal tut ns lttAfter with
                | .error e => .error e
                | .ok a => findTransitionsLoop z mk ns utcUnixTime hasRule rest tr.unixLeapTime tr.localTimeTypeIndex
                             (acc ++ [.skipped b a])
          else findTransitionsLoop z mk ns utcUnixTime hasRule rest tr.unixLeapTime tr.localTimeTypeIndex acc
      else findTransitionsLoop z mk ns utcUnixTime hasRule rest tr.unixLeapTime tr.localTimeTypeIndex acc

/-- `windows(2).all(|x| x[0] <= x[1])` -/
def isSorted : List Int → Bool
  | [] => true
  | [_] => true
  | a :: b :: rest => a ≤ b && isSorted (b :: rest)

/-- `for chunk in chunks_exact_mut(2) { chunk.swap(0, 1) }` -/
def swapPairs : List Int → List Int
  | a :: b :: rest => b :: a :: swapPairs rest
  | l => l

/-- one synthetic transition of the rule part: (type before, type after, candidate before, candidate after) -/
structure RuleStep where
  before : LocalTimeType
  after : LocalTimeType
  utBefore : Int
  utAfter : Int

/-- the `for (transition_unix_time, …) in valid_iter` loop -/
def findRuleLoop (mk : LocalTimeType → Int → DateTime) (ns : Int) :
    List (Int × RuleStep) → Int → List Found → Except TzError (List Found)
  | [], _, acc => .ok acc
  | (t, s) :: rest, prev, acc =>
    if prev ≤ s.utBefore ∧ s.utBefore < t then
      findRuleLoop mk ns rest t (acc ++ [.normal (mk s.before s.utBefore)])
    else if s.utBefore ≥ t ∧ s.utAfter < t then
      match DateTime.fromTimespecAndLocal t ns s.before with
      | .error e => .error e
      | .ok b =>
        match DateTime.fromTimespecAndLocal t ns s.after with
        | .error e => .error e
        | .ok a => findRuleLoop mk ns rest t (acc ++ [.skipped b a])
    else findRuleLoop mk ns rest t acc

/-- `iter().position(|&t| prev < t)` followed by slicing both arrays from that position -/
def dropUntil (prev : Int) : List (Int × RuleStep) → List (Int × RuleStep)
  | [] => []
  | (t, s) :: rest => if prev < t then (t, s) :: rest else dropUntil prev rest

-- src/datetime/find.rs `find_date_time`
def findDateTime (year month monthDay hour minute second nanoseconds : Int) (z : TimeZone) : Except TzError (List Found) :=
  if z.transitions.isEmpty ∧ z.extraRule.isNone then
    match DateTime.new year month monthDay hour minute second nanoseconds (z.localTimeTypes.getD 0 default) with
    | .error e => .error e
    | .ok d => .ok [.normal d]
  else
  let mk := mkDateTime year month monthDay hour minute second nanoseconds
  match checkDateTimeInputs year month monthDay hour minute second nanoseconds with
  | .error e => .error (.dateTime e)
  | .ok () =>
  let utc := Model.unixTime year month monthDay hour minute second
  match findTransitionsLoop z mk nanoseconds utc z.extraRule.isSome z.transitions i64Min 0 [] with
  | .error e => .error e
  | .ok acc =>
  match z.extraRule with
  | none => .ok acc
  | some (.fixed ltt) =>
    let ut := utc - ltt.utOffset
    let cond : Except TzError Bool :=
      match z.transitions.getLast? with
      | some last =>
        match unixLeapTimeToUnixTime z.leapSeconds last.unixLeapTime with
        | .error e => .error e
        | .ok t => .ok (decide (ut ≥ t))
      | none => .ok true
    match cond with
    | .error e => .error e
    | .ok false => .ok acc
    | .ok true =>
      match checkUnixTime ut with
      | .error e => .error e
      | .ok () => .ok (acc ++ [.normal (mk ltt ut)])
  | some (.alternate a) =>
    let stdOff := a.std.utOffset
    let dstOff := a.dst.utOffset
    let utStd := utc - stdOff
    let utDst := utc - dstOff
    let st := a.dstStartTime - stdOff
    let et := a.dstEndTime - dstOff
    match checkUnixTime utStd with
    | .error e => .error e
    | .ok () =>
    match checkUnixTime utDst with
    | .error e => .error e
    | .ok () =>
    if !(i32Min + guardFindYearMarginLow ≤ year && year ≤ i32Max - guardFindYearMarginHigh) then .error .outOfRange else
    let times0 : List Int :=
      [a.dstStart.unixTime (year - 1) st, a.dstEnd.unixTime (year - 1) et,
       a.dstStart.unixTime year st, a.dstEnd.unixTime year et,
       a.dstStart.unixTime (year + 1) st, a.dstEnd.unixTime (year + 1) et, i64Max]
    let sorted := isSorted times0
    let times := if sorted then times0 else swapPairs times0
    let tStart : RuleStep := { before := a.std, after := a.dst, utBefore := utStd, utAfter := utDst }
    let tEnd : RuleStep := { before := a.dst, after := a.std, utBefore := utDst, utAfter := utStd }
    let steps := if sorted then [tStart, tEnd, tStart, tEnd, tStart, tEnd, tStart]
                 else [tEnd, tStart, tEnd, tStart, tEnd, tStart, tEnd]
    let prev : Except TzError Int :=
      match z.transitions.getLast? with
      | some last => unixLeapTimeToUnixTime z.leapSeconds last.unixLeapTime
      | none => .ok i64Min
    match prev with
    | .error e => .error e
    | .ok prev =>
      findRuleLoop mk nanoseconds (dropUntil prev (times.zip steps)) prev acc

/-! ### Containers -/

-- src/datetime/find.rs `FoundDateTimeList::{unique, earliest, latest}`
def listUnique : List Found → Option DateTime
  | [.normal d] => some d
  | _ => none

def listEarliest (l : List Found) : Option DateTime :=
  match l.head? with
  | none => none
  | some (.normal d) => some d
  | some (.skipped b _) => some b

def listLatest (l : List Found) : Option DateTime :=
  match l.getLast? with
  | none => none
  | some (.normal d) => some d
  | some (.skipped _ a) => some a

/-- `FoundDateTimeListRefMut` -/
structure RefMut where
  buf : List (Option Found)
  currentIndex : Nat
  count : Nat
  deriving Repr

-- src/datetime/find.rs `FoundDateTimeListRefMut::new`
def RefMut.new (buf : List (Option Found)) : RefMut := { buf, currentIndex := 0, count := 0 }

-- src/datetime/find.rs `impl DateTimeList for FoundDateTimeListRefMut::push`
def RefMut.push (r : RefMut) (f : Found) : RefMut :=
  if r.currentIndex < r.buf.length then
    { buf := r.buf.set r.currentIndex (some f), currentIndex := r.currentIndex + 1, count := r.count + 1 }
  else { r with count := r.count + 1 }

-- `data()`, `count()`, `is_exhaustive()`
def RefMut.data (r : RefMut) : List (Option Found) := r.buf.take r.currentIndex
def RefMut.isExhaustive (r : RefMut) : Bool := r.currentIndex == r.count

/-- `iter().flatten()` -/
def flattenOpts : List (Option Found) → List Found
  | [] => []
  | none :: rest => flattenOpts rest
  | some f :: rest => f :: flattenOpts rest

-- `FoundDateTimeListRefMut::{unique, earliest, latest}`
def RefMut.unique (r : RefMut) : Option DateTime :=
  match flattenOpts r.data with
  | [.normal d] => some d
  | _ => none

def RefMut.earliest (r : RefMut) : Option DateTime := listEarliest (flattenOpts r.data)
def RefMut.latest (r : RefMut) : Option DateTime := listLatest (flattenOpts r.data)

/-- `DateTime::find_n`: the search pushes its results, in order, into the wrapper -/
def findN (buf : List (Option Found)) (year month monthDay hour minute second nanoseconds : Int) (z : TimeZone) :
    Except TzError RefMut :=
  match findDateTime year month monthDay hour minute second nanoseconds z with
  | .error e => .error e
  | .ok rs => .ok (rs.foldl RefMut.push (RefMut.new buf))

end TzVerif.Model
