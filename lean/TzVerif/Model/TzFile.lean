/-
Model of src/parse/tz_file.rs (TZif v1/v2/v3 reader) and of `TimeZoneSettings::parse_posix_tz`
(src/timezone/mod.rs, TZ value resolution with the injectable reader).
-/
import TzVerif.Model.TzString

namespace TzVerif.Model
open TzVerif.Gen

/-- `str::from_utf8(..).is_ok()`: well-formed UTF-8 per the Unicode standard (Table 3-7). -/
def validUtf8 : Bytes → Bool
  | [] => true
  | b0 :: rest =>
    if b0 < 128 then validUtf8 rest
    else if 194 ≤ b0 && b0 ≤ 223 then
      match rest with
      | b1 :: rest => (128 ≤ b1 && b1 ≤ 191) && validUtf8 rest
      | _ => false
    else if 224 ≤ b0 && b0 ≤ 239 then
      match rest with
      | b1 :: b2 :: rest =>
        let lo := if b0 == 224 then 160 else 128
        let hi := if b0 == 237 then 159 else 191
        (lo ≤ b1 && b1 ≤ hi) && (128 ≤ b2 && b2 ≤ 191) && validUtf8 rest
      | _ => false
    else if 240 ≤ b0 && b0 ≤ 244 then
      match rest with
      | b1 :: b2 :: b3 :: rest =>
        let lo := if b0 == 240 then 144 else 128
        let hi := if b0 == 244 then 143 else 191
        (lo ≤ b1 && b1 ≤ hi) && (128 ≤ b2 && b2 ≤ 191) && (128 ≤ b3 && b3 ≤ 191) && validUtf8 rest
      | _ => false
    else false

/-- `str::trim_matches(|c| c.is_ascii_whitespace())` at the byte level (equal on valid UTF-8) -/
def trimAsciiWhitespace (s : Bytes) : Bytes :=
  ((s.dropWhile isAsciiWhitespace).reverse.dropWhile isAsciiWhitespace).reverse

def be32 (b : Bytes) : Nat := b.foldl (fun acc x => acc * 256 + x) 0
/-- `i32::from_be_bytes` / `i64::from_be_bytes` on `n` bytes -/
def beSigned (b : Bytes) : Int :=
  let v : Int := be32 b
  let bits := 8 * b.length
  if v ≥ 2 ^ (bits - 1) then v - 2 ^ bits else v

structure Header where
  version : Nat   -- 1, 2, 3
  utLocalCount : Nat
  stdWallCount : Nat
  leapCount : Nat
  transitionCount : Nat
  typeCount : Nat
  charCount : Nat
  deriving Repr, DecidableEq

def liftPD {α} : Except ParseDataError α → Except TzFileError α
  | .ok a => .ok a
  | .error e => .error (.parseData e)

-- src/parse/tz_file.rs `parse_header`
def parseHeader (c : Bytes) : Except TzFileError (Header × Bytes) :=
  match readExact c 4 with
  | .error e => .error (.parseData e)
  | .ok (magic, c) =>
  if magic ≠ [84, 90, 105, 102] then .error .invalidMagicNumber else
  match readExact c 1 with
  | .error e => .error (.parseData e)
  | .ok (v, c) =>
  let version : Option Nat := match v with
    | [0] => some 1 | [50] => some 2 | [51] => some 3 | _ => none
  match version with
  | none => .error .unsupportedTzFileVersion
  | some version =>
  match readExact c 15 with
  | .error e => .error (.parseData e)
  | .ok (_, c) =>
  match readExact c 4 with
  | .error e => .error (.parseData e)
  | .ok (b1, c) =>
  match readExact c 4 with
  | .error e => .error (.parseData e)
  | .ok (b2, c) =>
  match readExact c 4 with
  | .error e => .error (.parseData e)
  | .ok (b3, c) =>
  match readExact c 4 with
  | .error e => .error (.parseData e)
  | .ok (b4, c) =>
  match readExact c 4 with
  | .error e => .error (.parseData e)
  | .ok (b5, c) =>
  match readExact c 4 with
  | .error e => .error (.parseData e)
  | .ok (b6, c) =>
  let utLocal := be32 b1
  let stdWall := be32 b2
  let leap := be32 b3
  let transition := be32 b4
  let type := be32 b5
  let char := be32 b6
  if !(type != 0 && char != 0 && (utLocal == 0 || utLocal == type) && (stdWall == 0 || stdWall == type)) then
    .error .invalidHeader
  else .ok ({ version, utLocalCount := utLocal, stdWallCount := stdWall, leapCount := leap,
              transitionCount := transition, typeCount := type, charCount := char }, c)

structure DataBlocks where
  transitionTimes : Bytes
  transitionTypes : Bytes
  localTimeTypes : Bytes
  designations : Bytes
  leapSeconds : Bytes
  stdWalls : Bytes
  utLocals : Bytes
  deriving Repr, DecidableEq

-- src/parse/tz_file.rs `read_data_blocks::<TIME_SIZE>`
def readDataBlocks (timeSize : Nat) (c : Bytes) (h : Header) : Except TzFileError (DataBlocks × Bytes) :=
  match readExact c (h.transitionCount * timeSize) with
  | .error e => .error (.parseData e)
  | .ok (transitionTimes, c) =>
  match readExact c h.transitionCount with
  | .error e => .error (.parseData e)
  | .ok (transitionTypes, c) =>
  match readExact c (h.typeCount * 6) with
  | .error e => .error (.parseData e)
  | .ok (localTimeTypes, c) =>
  match readExact c h.charCount with
  | .error e => .error (.parseData e)
  | .ok (designations, c) =>
  match readExact c (h.leapCount * (timeSize + 4)) with
  | .error e => .error (.parseData e)
  | .ok (leapSeconds, c) =>
  match readExact c h.stdWallCount with
  | .error e => .error (.parseData e)
  | .ok (stdWalls, c) =>
  match readExact c h.utLocalCount with
  | .error e => .error (.parseData e)
  | .ok (utLocals, c) =>
  .ok ({ transitionTimes, transitionTypes, localTimeTypes, designations, leapSeconds, stdWalls, utLocals }, c)

/-- `chunks_exact(n)` -/
def chunksExact (n : Nat) (b : Bytes) : List Bytes :=
  if _h : n = 0 ∨ b.length < n then [] else b.take n :: chunksExact n (b.drop n)
termination_by b.length
decreasing_by simp only [List.length_drop]; omega

-- src/parse/tz_file.rs `parse_footer`
def parseFooter (footer : Bytes) (ext : Bool) : Except TzError (Option TransitionRule) :=
  if !validUtf8 footer then .error (.tzFile .utf8) else
  if !(footer.length ≥ 2 && footer.head? == some 10 && footer.getLast? == some 10) then .error (.tzFile .invalidFooter) else
  let tz := trimAsciiWhitespace footer
  if tz.head? == some 58 || tz.contains 0 then .error (.tzFile .invalidFooter) else
  if !tz.isEmpty then
    match parsePosixTz tz ext with
    | .error e => .error e
    | .ok r => .ok (some r)
  else .ok none

/-- the pre-`fix:` footer test (F4): a single newline passed -/
def parseFooterLegacy (footer : Bytes) (ext : Bool) : Except TzError (Option TransitionRule) :=
  if !validUtf8 footer then .error (.tzFile .utf8) else
  if !(footer.head? == some 10 && footer.getLast? == some 10) then .error (.tzFile .invalidFooter) else
  let tz := trimAsciiWhitespace footer
  if tz.head? == some 58 || tz.contains 0 then .error (.tzFile .invalidFooter) else
  if !tz.isEmpty then
    match parsePosixTz tz ext with
    | .error e => .error e
    | .ok r => .ok (some r)
  else .ok none

/-- one 6-byte local time type record -/
def parseLocalTimeType (designations : Bytes) (charCount : Nat) (d : Bytes) : Except TzError LocalTimeType :=
  let utOffset := beSigned (d.take 4)
  let d4 := d.getD 4 0
  let d5 := d.getD 5 0
  if d4 ≠ 0 ∧ d4 ≠ 1 then .error (.tzFile .invalidDstIndicator) else
  let isDst := d4 == 1
  if d5 ≥ charCount then .error (.tzFile .invalidTimeZoneDesignationCharIndex) else
  let tail := designations.drop d5
  let (name, rest) := spanWhile (· != 0) tail
  if rest.isEmpty then .error (.tzFile .invalidTimeZoneDesignationCharIndex) else
  match LocalTimeType.new utOffset isDst (if name.isEmpty then none else some name) with
  | .error e => .error (.localTimeType e)
  | .ok t => .ok t

def parseLocalTimeTypes (designations : Bytes) (charCount : Nat) : List Bytes → Except TzError (List LocalTimeType)
  | [] => .ok []
  | d :: ds =>
    match parseLocalTimeType designations charCount d with
    | .error e => .error e
    | .ok t =>
      match parseLocalTimeTypes designations charCount ds with
      | .error e => .error e
      | .ok ts => .ok (t :: ts)

/-- the std/wall–ut/local indicator pairs, padded with zeros, first `typeCount` -/
def indicatorPairsOk : Nat → Bytes → Bytes → Bool
  | 0, _, _ => true
  | n + 1, sw, ul =>
    let s := sw.headD 0
    let u := ul.headD 0
    ((s == 0 && u == 0) || (s == 1 && u == 0) || (s == 1 && u == 1)) && indicatorPairsOk n sw.tail ul.tail

-- src/parse/tz_file.rs `DataBlocks::parse`
def DataBlocks.parse (timeSize : Nat) (d : DataBlocks) (h : Header) (footer : Option Bytes)
    (pf : Bytes → Bool → Except TzError (Option TransitionRule) := parseFooter) : Except TzError TimeZone :=
  let times := (chunksExact timeSize d.transitionTimes).map beSigned
  let transitions := (times.zip d.transitionTypes).map (fun (t, i) => ({ unixLeapTime := t, localTimeTypeIndex := i } : Transition))
  match parseLocalTimeTypes d.designations h.charCount (chunksExact 6 d.localTimeTypes) with
  | .error e => .error e
  | .ok types =>
  let leaps := (chunksExact (timeSize + 4) d.leapSeconds).map
    (fun c => ({ unixLeapTime := beSigned (c.take timeSize), correction := beSigned ((c.drop timeSize).take 4) } : LeapSecond))
  if !indicatorPairsOk h.typeCount d.stdWalls d.utLocals then .error (.tzFile .invalidStdWallUtLocal) else
  let ruleR : Except TzError (Option TransitionRule) :=
    match footer with
    | none => .ok none
    | some f => pf f (h.version == 3)
  match ruleR with
  | .error e => .error e
  | .ok rule => TimeZone.new transitions types leaps rule

-- src/parse/tz_file.rs `parse_tz_file`
def parseTzFileWith (pf : Bytes → Bool → Except TzError (Option TransitionRule)) (bytes : Bytes) : Except TzError TimeZone :=
  match parseHeader bytes with
  | .error e => .error (.tzFile e)
  | .ok (h, c) =>
  if h.version = 1 then
    match readDataBlocks 4 c h with
    | .error e => .error (.tzFile e)
    | .ok (blocks, c) =>
      if !c.isEmpty then .error (.tzFile .remainingDataV1)
      else blocks.parse 4 h none pf
  else
    match readDataBlocks 4 c h with
    | .error e => .error (.tzFile e)
    | .ok (_, c) =>
    match parseHeader c with
    | .error e => .error (.tzFile e)
    | .ok (h2, c) =>
    match readDataBlocks 8 c h2 with
    | .error e => .error (.tzFile e)
    | .ok (blocks, footer) => blocks.parse 8 h2 (some footer) pf

def parseTzFile (bytes : Bytes) : Except TzError TimeZone := parseTzFileWith parseFooter bytes
def parseTzFileLegacy (bytes : Bytes) : Except TzError TimeZone := parseTzFileWith parseFooterLegacy bytes

/-! ### TZ value resolution (`TimeZoneSettings`), unix branch -/

def liftTz {α} : Except TzError α → Except Error α
  | .ok a => .ok a
  | .error e => .error (.tz e)

/-- `read_tz_file`: returns the list of paths requested (in order) and the first readable content -/
def readTzFile (dirs : List Bytes) (fs : Bytes → Option Bytes) (tz : Bytes) : List Bytes × Option Bytes :=
  if tz.head? == some 47 then ([tz], fs tz)   -- '/'
  else
    let rec go : List Bytes → List Bytes → List Bytes × Option Bytes
      | [], acc => (acc, none)
      | d :: ds, acc =>
        let p := d ++ [47] ++ tz
        match fs p with
        | some b => (acc ++ [p], some b)
        | none => go ds (acc ++ [p])
    go dirs []

def localtimeBytes : Bytes := [108, 111, 99, 97, 108, 116, 105, 109, 101]           -- "localtime"
def etcLocaltimeBytes : Bytes := [47, 101, 116, 99, 47] ++ localtimeBytes           -- "/etc/localtime"

-- src/timezone/mod.rs `TimeZoneSettings::parse_posix_tz` (cfg(unix))
def resolveTz (dirs : List Bytes) (fs : Bytes → Option Bytes) (tz : Bytes) : List Bytes × Except Error TimeZone :=
  if tz.isEmpty then ([], .error (.tz (.tzString .empty))) else
  if tz = localtimeBytes then
    match fs etcLocaltimeBytes with
    | none => ([etcLocaltimeBytes], .error .io)
    | some b => ([etcLocaltimeBytes], liftTz (parseTzFile b))
  else
  match tz with
  | 58 :: rest =>   -- ':'
    match readTzFile dirs fs rest with
    | (paths, none) => (paths, .error .io)
    | (paths, some b) => (paths, liftTz (parseTzFile b))
  | _ =>
    match readTzFile dirs fs tz with
    | (paths, some b) => (paths, liftTz (parseTzFile b))
    | (paths, none) =>
      let s := trimAsciiWhitespace tz
      match parsePosixTz s false with
      | .error e => (paths, .error (.tz e))
      | .ok rule =>
        let types := match rule with
          | .fixed t => [t]
          | .alternate a => [a.std, a.dst]
        (paths, liftTz (TimeZone.new [] types [] (some rule)))

end TzVerif.Model
