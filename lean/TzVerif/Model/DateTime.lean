/-
Model of src/datetime/mod.rs (calendar arithmetic) and src/utils/const_fns.rs (`min`, `try_into_*`).
Rust `/`, `%` on signed integers are `Int.tdiv`, `Int.tmod`; `div_euclid`/`rem_euclid` are `/`, `%`.
-/
import TzVerif.Model.Basic

namespace TzVerif.Model
open TzVerif.Gen

/-- `table[i]` for the constant tables; out-of-range indexes (a Rust panic) are outside every
    precondition used below and are the subject of C07's site list. -/
def tbl (l : List Int) (i : Int) : Int := l.getD i.toNat 0

-- src/datetime/mod.rs `is_leap_year`
def isLeapYear (year : Int) : Bool :=
  year.tmod 400 == 0 || (year.tmod 4 == 0 && year.tmod 100 != 0)

-- src/datetime/mod.rs `days_since_unix_epoch`
def daysSinceUnixEpoch (year month monthDay : Int) : Int :=
  let leap := isLeapYear year
  let r0 := (year - 1970) * 365
  let r1 :=
    if year ≥ 1970 then
      let r := r0 + (year - 1968).tdiv 4 - (year - 1900).tdiv 100 + (year - 1600).tdiv 400
      if leap && month < 3 then r - 1 else r
    else
      let r := r0 + (year - 1972).tdiv 4 - (year - 2000).tdiv 100 + (year - 2000).tdiv 400
      if leap && month ≥ 3 then r + 1 else r
  r1 + tbl CUMUL_DAYS_IN_MONTHS_NORMAL_YEAR (month - 1) + monthDay - 1

-- src/datetime/mod.rs `unix_time`
def unixTime (year month monthDay hour minute second : Int) : Int :=
  ((daysSinceUnixEpoch year month monthDay * HOURS_PER_DAY + hour) * MINUTES_PER_HOUR + minute)
    * SECONDS_PER_MINUTE + second

-- src/datetime/mod.rs `week_day`
def weekDay (year month monthDay : Int) : Int :=
  (4 + daysSinceUnixEpoch year month monthDay) % DAYS_PER_WEEK

-- src/datetime/mod.rs `year_day`
def yearDay (year month monthDay : Int) : Int :=
  let leap : Int := if month ≥ 3 && isLeapYear year then 1 else 0
  tbl CUMUL_DAYS_IN_MONTHS_NORMAL_YEAR (month - 1) + leap + monthDay - 1

-- src/datetime/mod.rs `nanoseconds_since_unix_epoch`
def nanosecondsSinceUnixEpoch (unixTime nanoseconds : Int) : Int :=
  unixTime * NANOSECONDS_PER_SECOND + nanoseconds

-- src/utils/const_fns.rs `try_into_i32`, `try_into_i64`
def tryIntoI32 (v : Int) : Except TzError Int :=
  if i32Min ≤ v ∧ v ≤ i32Max then .ok v else .error .outOfRange

def tryIntoI64 (v : Int) : Except TzError Int :=
  if i64Min ≤ v ∧ v ≤ i64Max then .ok v else .error .outOfRange

-- src/datetime/mod.rs `total_nanoseconds_to_timespec`
def totalNanosecondsToTimespec (total : Int) : Except TzError (Int × Int) :=
  match tryIntoI64 (total / NANOSECONDS_PER_SECOND) with
  | .ok s => .ok (s, total % NANOSECONDS_PER_SECOND)
  | .error e => .error e

-- src/datetime/mod.rs `check_date_time_inputs`
def checkDateTimeInputs (year month monthDay hour minute second nanoseconds : Int) : Except DateTimeError Unit :=
  if !(1 ≤ month && month ≤ 12) then .error .invalidMonth
  else if !(1 ≤ monthDay && monthDay ≤ 31) then .error .invalidMonthDay
  else if hour > 23 then .error .invalidHour
  else if minute > 59 then .error .invalidMinute
  else if second > 60 then .error .invalidSecond
  else if nanoseconds ≥ NANOSECONDS_PER_SECOND then .error .invalidNanoseconds
  else
    let leap : Int := if isLeapYear year then 1 else 0
    let dim := tbl DAYS_IN_MONTHS_NORMAL_YEAR (month - 1)
    let dim := if month = 2 then dim + leap else dim
    if monthDay > dim then .error .invalidMonthDay else .ok ()

-- src/datetime/mod.rs `UtcDateTime::check_unix_time`
def checkUnixTime (t : Int) : Except TzError Unit :=
  if MIN_UNIX_TIME ≤ t ∧ t ≤ MAX_UNIX_TIME then .ok () else .error .outOfRange

-- src/datetime/mod.rs `UtcDateTime::new`
def UtcDateTime.new (year month monthDay hour minute second nanoseconds : Int) : Except TzError UtcDateTime :=
  if year = i32Max ∧ month = 12 ∧ monthDay = 31 ∧ hour = 23 ∧ minute = 59 ∧ second = 60 then
    .error .outOfRange
  else
    match checkDateTimeInputs year month monthDay hour minute second nanoseconds with
    | .error e => .error (.dateTime e)
    | .ok () => .ok { year, month, monthDay, hour, minute, second, nanoseconds }

-- src/utils/const_fns.rs `min`
def minI (a b : Int) : Int := if a ≤ b then a else b

/-- the `while month < 12` loop of `UtcDateTime::from_timespec` over DAY_IN_MONTHS_LEAP_YEAR_FROM_MARCH -/
def monthLoop : List Int → Int → Int → Int × Int
  | [], m, r => (m, r)
  | d :: ds, m, r => if r < d then (m, r) else monthLoop ds (m + 1) (r - d)

-- src/datetime/mod.rs `UtcDateTime::from_timespec`
def UtcDateTime.fromTimespec (unixTime nanoseconds : Int) : Except TzError UtcDateTime :=
  let seconds := unixTime - UNIX_OFFSET_SECS
  if ¬ (i64Min ≤ seconds ∧ seconds ≤ i64Max) then .error .outOfRange else
  let remDays0 := seconds.tdiv SECONDS_PER_DAY
  let remSecs0 := seconds.tmod SECONDS_PER_DAY
  let remSecs := if remSecs0 < 0 then remSecs0 + SECONDS_PER_DAY else remSecs0
  let remDays1 := if remSecs0 < 0 then remDays0 - 1 else remDays0
  let c400a := remDays1.tdiv DAYS_PER_400_YEARS
  let remDays2a := remDays1.tmod DAYS_PER_400_YEARS
  let remDays2 := if remDays2a < 0 then remDays2a + DAYS_PER_400_YEARS else remDays2a
  let c400 := if remDays2a < 0 then c400a - 1 else c400a
  let c100 := minI (remDays2.tdiv DAYS_PER_100_YEARS) 3
  let remDays3 := remDays2 - c100 * DAYS_PER_100_YEARS
  let c4 := minI (remDays3.tdiv DAYS_PER_4_YEARS) 24
  let remDays4 := remDays3 - c4 * DAYS_PER_4_YEARS
  let ry := minI (remDays4.tdiv DAYS_PER_NORMAL_YEAR) 3
  let remDays5 := remDays4 - ry * DAYS_PER_NORMAL_YEAR
  let year0 := OFFSET_YEAR + ry + c4 * 4 + c100 * 100 + c400 * 400
  let (m0, remDays6) := monthLoop DAY_IN_MONTHS_LEAP_YEAR_FROM_MARCH 0 remDays5
  let m1 := m0 + 2
  let year1 := if m1 ≥ MONTHS_PER_YEAR then year0 + 1 else year0
  let m2 := if m1 ≥ MONTHS_PER_YEAR then m1 - MONTHS_PER_YEAR else m1
  let month := m2 + 1
  let monthDay := 1 + remDays6
  let hour := remSecs.tdiv SECONDS_PER_HOUR
  let minute := (remSecs.tdiv SECONDS_PER_MINUTE).tmod MINUTES_PER_HOUR
  let second := remSecs.tmod SECONDS_PER_MINUTE
  match tryIntoI32 year1 with
  | .error e => .error e
  | .ok year => .ok { year, month, monthDay, hour, minute, second, nanoseconds }

-- src/datetime/mod.rs `UtcDateTime::from_total_nanoseconds`
def UtcDateTime.fromTotalNanoseconds (total : Int) : Except TzError UtcDateTime :=
  match totalNanosecondsToTimespec total with
  | .ok (s, ns) => UtcDateTime.fromTimespec s ns
  | .error e => .error e

-- src/datetime/mod.rs `UtcDateTime::unix_time`
def UtcDateTime.unixTime (c : UtcDateTime) : Int :=
  Model.unixTime c.year c.month c.monthDay c.hour c.minute c.second

-- src/datetime/mod.rs `DateTime::new`
def DateTime.new (year month monthDay hour minute second nanoseconds : Int) (ltt : LocalTimeType) : Except TzError DateTime :=
  match checkDateTimeInputs year month monthDay hour minute second nanoseconds with
  | .error e => .error (.dateTime e)
  | .ok () =>
    let ut := Model.unixTime year month monthDay hour minute second - ltt.utOffset
    match checkUnixTime ut with
    | .error e => .error e
    | .ok () => .ok { year, month, monthDay, hour, minute, second, localTimeType := ltt, unixTime := ut, nanoseconds }

-- src/datetime/mod.rs `DateTime::from_timespec_and_local`
def DateTime.fromTimespecAndLocal (unixTime nanoseconds : Int) (ltt : LocalTimeType) : Except TzError DateTime :=
  let t := unixTime + ltt.utOffset
  if ¬ (i64Min ≤ t ∧ t ≤ i64Max) then .error .outOfRange else
  match UtcDateTime.fromTimespec t nanoseconds with
  | .error e => .error e
  | .ok c => .ok { year := c.year, month := c.month, monthDay := c.monthDay, hour := c.hour, minute := c.minute,
                   second := c.second, localTimeType := ltt, unixTime := unixTime, nanoseconds := c.nanoseconds }

/-! ### Text form (`format_date_time`); `core::fmt` padding is modelled by `pad`. -/

/-- decimal digits of a natural number, most significant first (`0` ↦ "0"): what `core::fmt` prints
    for an unsigned integer (modelled, DESIGN §1.4) -/
def natDigits (n : Nat) : List Char :=
  if n < 10 then [Nat.digitChar n] else natDigits (n / 10) ++ [Nat.digitChar (n % 10)]
termination_by n
decreasing_by omega

/-- `{:0w}` for a non-negative integer: at least `w` digits, zero padded -/
def pad (w : Nat) (n : Int) : List Char :=
  let ds := natDigits n.toNat
  List.replicate (w - ds.length) '0' ++ ds

/-- `{}` for a signed integer -/
def showInt (n : Int) : List Char :=
  if n < 0 then '-' :: natDigits (-n).toNat else natDigits n.toNat

-- src/datetime/mod.rs `format_date_time`
def formatDateTime (year month monthDay hour minute second nanoseconds utOffset : Int) : List Char :=
  let base := showInt year ++ ['-'] ++ pad 2 month ++ ['-'] ++ pad 2 monthDay ++ ['T'] ++ pad 2 hour ++ [':']
    ++ pad 2 minute ++ [':'] ++ pad 2 second ++ ['.'] ++ pad 9 nanoseconds
  if utOffset ≠ 0 then
    let a := if utOffset < 0 then -utOffset else utOffset
    let sign := if utOffset < 0 then '-' else '+'
    let oh := a.tdiv SECONDS_PER_HOUR
    let om := (a.tdiv SECONDS_PER_MINUTE).tmod MINUTES_PER_HOUR
    let os := a.tmod SECONDS_PER_MINUTE
    let s := base ++ [sign] ++ pad 2 oh ++ [':'] ++ pad 2 om
    if os ≠ 0 then s ++ [':'] ++ pad 2 os else s
  else base ++ ['Z']

end TzVerif.Model
