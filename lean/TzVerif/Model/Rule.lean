/-
Model of src/timezone/rule.rs: rule days, the 200-line consistency check, `AlternateTime::new`,
`AlternateTime::find_local_time_type`; and of `binary_search_i64` (src/utils/const_fns.rs).
-/
import TzVerif.Model.DateTime

namespace TzVerif.Model
open TzVerif.Gen

/-- `i64::abs` (no overflow at the call sites: the arguments are widened `i32`s) -/
def absI (x : Int) : Int := if x < 0 then -x else x

/-- result of the `impl_binary_search!` macro: `Ok(mid)` / `Err(left)` -/
inductive BS where
  | found (i : Nat)
  | notFound (i : Nat)
  deriving DecidableEq, Repr, Inhabited

-- src/utils/const_fns.rs `impl_binary_search!` (the loop; `size` is `right - left` throughout)
def binarySearchLoop (l : List Int) (x : Int) (left right : Nat) : BS :=
  if h : left < right then
    let mid := left + (right - left) / 2
    let v := l.getD mid 0
    if v < x then binarySearchLoop l x (mid + 1) right
    else if v > x then binarySearchLoop l x left mid
    else .found mid
  else .notFound left
termination_by right - left
decreasing_by all_goals omega

-- src/utils/const_fns.rs `binary_search_i64`
def binarySearch (l : List Int) (x : Int) : BS := binarySearchLoop l x 0 l.length

/-- `match binary_search(..) { Ok(x) => x + 1, Err(x) => x }` -/
def BS.upper : BS → Nat
  | .found i => i + 1
  | .notFound i => i

-- src/timezone/rule.rs `Julian1WithoutLeap::new`, `Julian0WithLeap::new`, `MonthWeekDay::new`
def RuleDay.newJulian1 (n : Int) : Except TransitionRuleError RuleDay :=
  if !(1 ≤ n && n ≤ guardJulian1Max) then .error .invalidRuleDayJulianDay else .ok (.julian1 n)

def RuleDay.newJulian0 (n : Int) : Except TransitionRuleError RuleDay :=
  if n > guardJulian0Max then .error .invalidRuleDayJulianDay else .ok (.julian0 n)

def RuleDay.newMwd (month week weekDay : Int) : Except TransitionRuleError RuleDay :=
  if !(1 ≤ month && month ≤ 12) then .error .invalidRuleDayMonth
  else if !(1 ≤ week && week ≤ 5) then .error .invalidRuleDayWeek
  else if weekDay > 6 then .error .invalidRuleDayWeekDay
  else .ok (.mwd month week weekDay)

-- src/timezone/rule.rs `Julian1WithoutLeap::transition_date`
def julian1TransitionDate (n : Int) : Int × Int :=
  let month : Int := (binarySearch CUMUL_DAYS_IN_MONTHS_NORMAL_YEAR (n - 1)).upper
  (month, n - tbl CUMUL_DAYS_IN_MONTHS_NORMAL_YEAR (month - 1))

-- src/timezone/rule.rs `Julian0WithLeap::transition_date`
def julian0TransitionDate (n : Int) (leapYear : Bool) : Int × Int :=
  let cumul := if leapYear then CUMUL_DAYS_IN_MONTHS_LEAP_YEAR else CUMUL_DAYS_IN_MONTHS_NORMAL_YEAR
  let month : Int := (binarySearch cumul n).upper
  (month, 1 + n - tbl cumul (month - 1))

-- src/timezone/rule.rs `MonthWeekDay::transition_date`
def mwdTransitionDate (month week weekDay year : Int) : Int × Int :=
  let dim0 := tbl DAYS_IN_MONTHS_NORMAL_YEAR (month - 1)
  let dim := if month = 2 then dim0 + (if isLeapYear year then 1 else 0) else dim0
  let wdFirst := (4 + daysSinceUnixEpoch year month 1) % DAYS_PER_WEEK
  let first := 1 + (weekDay - wdFirst) % DAYS_PER_WEEK
  let md := first + (week - 1) * DAYS_PER_WEEK
  (month, if md > dim then md - DAYS_PER_WEEK else md)

-- src/timezone/rule.rs `RuleDay::transition_date`
def RuleDay.transitionDate (d : RuleDay) (year : Int) : Int × Int :=
  match d with
  | .julian1 n => julian1TransitionDate n
  | .julian0 n => julian0TransitionDate n (isLeapYear year)
  | .mwd m w wd => mwdTransitionDate m w wd year

-- src/timezone/rule.rs `RuleDay::unix_time`
def RuleDay.unixTime (d : RuleDay) (year dayTimeInUtc : Int) : Int :=
  let (month, monthDay) := d.transitionDate year
  daysSinceUnixEpoch year month monthDay * SECONDS_PER_DAY + dayTimeInUtc

structure JulianDayCheckInfos where
  startNormal : Int
  endNormal : Int
  startLeap : Int
  endLeap : Int
  deriving DecidableEq, Repr

structure MonthWeekDayCheckInfos where
  startNormal : Int × Int
  endNormal : Int × Int
  startLeap : Int × Int
  endLeap : Int × Int
  deriving DecidableEq, Repr

-- src/timezone/rule.rs `Julian1WithoutLeap::compute_check_infos`
def julian1CheckInfos (n utcDayTime : Int) : JulianDayCheckInfos :=
  let sn := (n - 1) * SECONDS_PER_DAY + utcDayTime
  let sl := if n ≤ 59 then sn else sn + SECONDS_PER_DAY
  { startNormal := sn, endNormal := sn - SECONDS_PER_NORMAL_YEAR, startLeap := sl, endLeap := sl - SECONDS_PER_LEAP_YEAR }

-- src/timezone/rule.rs `Julian0WithLeap::compute_check_infos`
def julian0CheckInfos (n utcDayTime : Int) : JulianDayCheckInfos :=
  let s := n * SECONDS_PER_DAY + utcDayTime
  { startNormal := s, endNormal := s - SECONDS_PER_NORMAL_YEAR, startLeap := s, endLeap := s - SECONDS_PER_LEAP_YEAR }

-- src/timezone/rule.rs `MonthWeekDay::compute_check_infos`
def mwdCheckInfos (month week utcDayTime : Int) : MonthWeekDayCheckInfos :=
  let (nr, lr) : (Int × Int) × (Int × Int) :=
    if week = 5 then
      let nd := tbl DAYS_IN_MONTHS_NORMAL_YEAR (month - 1)
      let ld := if month = 2 then nd + 1 else nd
      ((nd - 6, nd), (ld - 6, ld))
    else
      let r := (week * DAYS_PER_WEEK - 6, week * DAYS_PER_WEEK)
      (r, r)
  let sn := ((tbl CUMUL_DAYS_IN_MONTHS_NORMAL_YEAR (month - 1) + nr.1 - 1) * SECONDS_PER_DAY + utcDayTime,
             (tbl CUMUL_DAYS_IN_MONTHS_NORMAL_YEAR (month - 1) + nr.2 - 1) * SECONDS_PER_DAY + utcDayTime)
  let sl := ((tbl CUMUL_DAYS_IN_MONTHS_LEAP_YEAR (month - 1) + lr.1 - 1) * SECONDS_PER_DAY + utcDayTime,
             (tbl CUMUL_DAYS_IN_MONTHS_LEAP_YEAR (month - 1) + lr.2 - 1) * SECONDS_PER_DAY + utcDayTime)
  { startNormal := sn,
    endNormal := (sn.1 - SECONDS_PER_NORMAL_YEAR, sn.2 - SECONDS_PER_NORMAL_YEAR),
    startLeap := sl,
    endLeap := (sl.1 - SECONDS_PER_LEAP_YEAR, sl.2 - SECONDS_PER_LEAP_YEAR) }

-- src/timezone/rule.rs `check_two_julian_days`
def checkTwoJulianDays (c1 c2 : JulianDayCheckInfos) : Bool :=
  let go (before after : JulianDayCheckInfos) : Bool :=
    if after.endNormal ≤ before.startNormal && after.endNormal ≤ before.startLeap && after.endLeap ≤ before.startNormal then true
    else if before.startNormal ≤ after.endNormal && before.startLeap ≤ after.endNormal && before.startNormal ≤ after.endLeap then true
    else false
  if c1.startNormal ≤ c2.startNormal && c1.startLeap ≤ c2.startLeap then go c1 c2
  else if c2.startNormal ≤ c1.startNormal && c2.startLeap ≤ c1.startLeap then go c2 c1
  else false

-- src/timezone/rule.rs `check_month_week_day_and_julian_day`
def checkMonthWeekDayAndJulianDay (c1 : MonthWeekDayCheckInfos) (c2 : JulianDayCheckInfos) : Bool :=
  if c2.startNormal ≤ c1.startNormal.1 && c2.startLeap ≤ c1.startLeap.1 then
    -- before = c2 (Julian), after = c1 (month-week-day)
    if c1.endNormal.2 ≤ c2.startNormal && c1.endNormal.2 ≤ c2.startLeap && c1.endLeap.2 ≤ c2.startNormal then true
    else if c2.startNormal ≤ c1.endNormal.1 && c2.startLeap ≤ c1.endNormal.1 && c2.startNormal ≤ c1.endLeap.1 then true
    else false
  else if c1.startNormal.2 ≤ c2.startNormal && c1.startLeap.2 ≤ c2.startLeap then
    -- before = c1 (month-week-day), after = c2 (Julian)
    if c2.endNormal ≤ c1.startNormal.1 && c2.endNormal ≤ c1.startLeap.1 && c2.endLeap ≤ c1.startNormal.1 then true
    else if c1.startNormal.2 ≤ c2.endNormal && c1.startLeap.2 ≤ c2.endNormal && c1.startNormal.2 ≤ c2.endLeap then true
    else false
  else false

/-- the `(diff_days_min, diff_days_max)` computation of `check_two_month_week_days`;
    `none` = an early `return true` -/
def mwdDiffDays (monthBefore weekBefore weekDayBefore monthAfter weekAfter weekDayAfter : Int) : Option (Int × Int) :=
  let w14 (w : Int) : Bool := 1 ≤ w && w ≤ 4
  if weekDayBefore = weekDayAfter then
    if w14 weekBefore && weekAfter = 5 && monthBefore = monthAfter then
      some ((4 - weekBefore) * DAYS_PER_WEEK, (5 - weekBefore) * DAYS_PER_WEEK)
    else if w14 weekBefore && w14 weekAfter && monthBefore ≠ monthAfter then
      some ((4 - weekBefore + weekAfter) * DAYS_PER_WEEK, (5 - weekBefore + weekAfter) * DAYS_PER_WEEK)
    else none
  else
    let n := (weekDayAfter - weekDayBefore) % DAYS_PER_WEEK
    if monthBefore = monthAfter then
      if weekBefore = 5 && weekAfter = 5 then some (n - DAYS_PER_WEEK, n)
      else if w14 weekBefore && w14 weekAfter then
        some (n + DAYS_PER_WEEK * (weekAfter - weekBefore - 1), n + DAYS_PER_WEEK * (weekAfter - weekBefore))
      else if w14 weekBefore && weekAfter = 5 then
        let dim := tbl DAYS_IN_MONTHS_NORMAL_YEAR (monthBefore - 1)
        let r := dim.tmod DAYS_PER_WEEK
        if n < r then some (n + DAYS_PER_WEEK * (4 - weekBefore), n + DAYS_PER_WEEK * (5 - weekBefore))
        else if n = r then none
        else some (n + DAYS_PER_WEEK * (3 - weekBefore), n + DAYS_PER_WEEK * (4 - weekBefore))
      else none -- `unreachable!()` in the source: (5, 1..=4) cannot occur after the sort by week (C07 obligation)
    else
      if w14 weekBefore && w14 weekAfter then
        let dim := tbl DAYS_IN_MONTHS_NORMAL_YEAR (monthBefore - 1)
        let r := dim.tmod DAYS_PER_WEEK
        if n < r then some (n + DAYS_PER_WEEK * (4 - weekBefore + weekAfter), n + DAYS_PER_WEEK * (5 - weekBefore + weekAfter))
        else if n = r then none
        else some (n + DAYS_PER_WEEK * (3 - weekBefore + weekAfter), n + DAYS_PER_WEEK * (4 - weekBefore + weekAfter))
      else if weekBefore = 5 && w14 weekAfter then
        some (n + DAYS_PER_WEEK * (weekAfter - 1), n + DAYS_PER_WEEK * weekAfter)
      else none

-- src/timezone/rule.rs `check_two_month_week_days`
def checkTwoMonthWeekDays (m1 w1 wd1 t1 m2 w2 wd2 t2 : Int) : Bool :=
  let rem := (m2 - m1) % MONTHS_PER_YEAR
  let sorted : Option ((Int × Int × Int × Int) × (Int × Int × Int × Int)) :=
    if rem = 0 then
      if w1 ≤ w2 then some ((m1, w1, wd1, t1), (m2, w2, wd2, t2)) else some ((m2, w2, wd2, t2), (m1, w1, wd1, t1))
    else if rem = 1 then some ((m1, w1, wd1, t1), (m2, w2, wd2, t2))
    else if rem = MONTHS_PER_YEAR - 1 then some ((m2, w2, wd2, t2), (m1, w1, wd1, t1))
    else none
  match sorted with
  | none => true
  | some ((mb, wb, wdb, tb), (ma, wa, wda, ta)) =>
    match mwdDiffDays mb wb wdb ma wa wda with
    | none => true
    | some (dmin, dmax) =>
      let smin := dmin * SECONDS_PER_DAY
      let smax := dmax * SECONDS_PER_DAY
      tb ≤ smin + ta || smax + ta ≤ tb

-- src/timezone/rule.rs `check_dst_transition_rules_consistency`
def checkDstTransitionRulesConsistency (std dst : LocalTimeType) (dstStart : RuleDay) (dstStartTime : Int)
    (dstEnd : RuleDay) (dstEndTime : Int) : Bool :=
  let st := dstStartTime - std.utOffset
  let et := dstEndTime - dst.utOffset
  match dstStart, dstEnd with
  | .julian1 a, .julian1 b => checkTwoJulianDays (julian1CheckInfos a st) (julian1CheckInfos b et)
  | .julian1 a, .julian0 b => checkTwoJulianDays (julian1CheckInfos a st) (julian0CheckInfos b et)
  | .julian0 a, .julian1 b => checkTwoJulianDays (julian0CheckInfos a st) (julian1CheckInfos b et)
  | .julian0 a, .julian0 b => checkTwoJulianDays (julian0CheckInfos a st) (julian0CheckInfos b et)
  | .julian1 a, .mwd m w _ => checkMonthWeekDayAndJulianDay (mwdCheckInfos m w et) (julian1CheckInfos a st)
  | .julian0 a, .mwd m w _ => checkMonthWeekDayAndJulianDay (mwdCheckInfos m w et) (julian0CheckInfos a st)
  | .mwd m w _, .julian1 b => checkMonthWeekDayAndJulianDay (mwdCheckInfos m w st) (julian1CheckInfos b et)
  | .mwd m w _, .julian0 b => checkMonthWeekDayAndJulianDay (mwdCheckInfos m w st) (julian0CheckInfos b et)
  | .mwd m1 w1 wd1, .mwd m2 w2 wd2 => checkTwoMonthWeekDays m1 w1 wd1 st m2 w2 wd2 et

-- src/timezone/rule.rs `AlternateTime::new`
def AlternateTime.new (std dst : LocalTimeType) (dstStart : RuleDay) (dstStartTime : Int)
    (dstEnd : RuleDay) (dstEndTime : Int) : Except TransitionRuleError AlternateTime :=
  if !(guardOffsetLowHours * SECONDS_PER_HOUR < std.utOffset && std.utOffset < guardOffsetHighHours * SECONDS_PER_HOUR) then
    .error .invalidStdUtcOffset
  else if !(guardDstOffsetLowHours * SECONDS_PER_HOUR < dst.utOffset && dst.utOffset < guardDstOffsetHighHours * SECONDS_PER_HOUR) then
    .error .invalidDstUtcOffset
  else if !(absI dstStartTime < SECONDS_PER_WEEK && absI dstEndTime < SECONDS_PER_WEEK) then
    .error .invalidDstStartEndTime
  else if !(checkDstTransitionRulesConsistency std dst dstStart dstStartTime dstEnd dstEndTime) then
    .error .inconsistentRule
  else .ok { std, dst, dstStart, dstStartTime, dstEnd, dstEndTime }

/-- the decision tree of `AlternateTime::find_local_time_type` on the six instants
    (previous / current / next year start and end) -/
def alternateIsDst (t sPrev ePrev sCur eCur sNext eNext : Int) : Bool :=
  if sCur ≤ eCur then
    if t < sCur then
      if t < ePrev then decide (sPrev ≤ t) else false
    else if t < eCur then true
    else if sNext ≤ t then decide (t < eNext) else false
  else
    if t < eCur then
      if t < sPrev then decide (t < ePrev) else true
    else if t < sCur then false
    else if eNext ≤ t then decide (sNext ≤ t) else true

-- src/timezone/rule.rs `AlternateTime::find_local_time_type`
def AlternateTime.findLocalTimeType (a : AlternateTime) (unixTime : Int) : Except TzError LocalTimeType :=
  let st := a.dstStartTime - a.std.utOffset
  let et := a.dstEndTime - a.dst.utOffset
  match UtcDateTime.fromTimespec unixTime 0 with
  | .error e => .error e
  | .ok c =>
    let y := c.year
    if !(i32Min + guardYearMarginLow ≤ y && y ≤ i32Max - guardYearMarginHigh) then .error .outOfRange else
    let isDst := alternateIsDst unixTime
      (a.dstStart.unixTime (y - 1) st) (a.dstEnd.unixTime (y - 1) et)
      (a.dstStart.unixTime y st) (a.dstEnd.unixTime y et)
      (a.dstStart.unixTime (y + 1) st) (a.dstEnd.unixTime (y + 1) et)
    if isDst then .ok a.dst else .ok a.std

-- src/timezone/rule.rs `TransitionRule::find_local_time_type`
def TransitionRule.findLocalTimeType (r : TransitionRule) (unixTime : Int) : Except TzError LocalTimeType :=
  match r with
  | .fixed t => .ok t
  | .alternate a => a.findLocalTimeType unixTime

end TzVerif.Model
