/-
Model of src/timezone/mod.rs: designations, local time types, the zone constructor check,
the two leap-second conversions and the forward lookup.
-/
import TzVerif.Model.Rule

namespace TzVerif.Model
open TzVerif.Gen

/-- `matches!(b, b'0'..=b'9' | b'A'..=b'Z' | b'a'..=b'z' | b'+' | b'-')` -/
def isDesignationChar (b : Nat) : Bool :=
  (48 ≤ b && b ≤ 57) || (65 ≤ b && b ≤ 90) || (97 ≤ b && b ≤ 122) || b == 43 || b == 45

/-- first failing byte check of the `while i < len` loop of `TzAsciiStr::new` -/
def allDesignationChars : List Nat → Bool
  | [] => true
  | b :: bs => if isDesignationChar b then allDesignationChars bs else false

-- src/timezone/mod.rs `TzAsciiStr::new`
def TzAsciiStr.new (input : List Nat) : Except LocalTimeTypeError (List Nat) :=
  let len : Int := input.length
  if !(guardNameMinLen ≤ len && len ≤ guardNameMaxLen) then .error .invalidTimeZoneDesignationLength
  else if !(allDesignationChars input) then .error .invalidTimeZoneDesignationChar
  else .ok input

-- src/timezone/mod.rs `LocalTimeType::new`
def LocalTimeType.new (utOffset : Int) (isDst : Bool) (name : Option (List Nat)) : Except LocalTimeTypeError LocalTimeType :=
  if utOffset = i32Min then .error .invalidUtcOffset else
  match name with
  | none => .ok { utOffset, isDst, name := none }
  | some n =>
    match TzAsciiStr.new n with
    | .error e => .error e
    | .ok n => .ok { utOffset, isDst, name := some n }

-- src/timezone/mod.rs `LocalTimeType::with_ut_offset`
def LocalTimeType.withUtOffset (utOffset : Int) : Except LocalTimeTypeError LocalTimeType :=
  if utOffset = i32Min then .error .invalidUtcOffset else .ok { utOffset, isDst := false, name := none }

def LocalTimeType.utc : LocalTimeType := { utOffset := 0, isDst := false, name := none }

/-- `LocalTimeType::equal` (offset, flag and designation; the designation compare is on the
    8-byte buffer, which for values built by `TzAsciiStr::new` is equality of the byte strings) -/
def LocalTimeType.equal (a b : LocalTimeType) : Bool :=
  a.utOffset == b.utOffset && a.isDst == b.isDst && a.name == b.name

/-- `i64::saturating_sub` -/
def satSubI64 (a b : Int) : Int :=
  let d := a - b
  if d < i64Min then i64Min else if d > i64Max then i64Max else d

/-- `i32::saturating_sub` -/
def satSubI32 (a b : Int) : Int :=
  let d := a - b
  if d < i32Min then i32Min else if d > i32Max then i32Max else d

/-- `i32::saturating_abs` -/
def satAbsI32 (a : Int) : Int :=
  if a = i32Min then i32Max else absI a

/-- first loop of `check_inputs` (type index in range, strictly increasing times) -/
def checkTransitions (nTypes : Nat) : List Transition → Except TzError Unit
  | [] => .ok ()
  | t :: rest =>
    if t.localTimeTypeIndex ≥ nTypes then .error (.timeZone .invalidLocalTimeTypeIndex)
    else match rest with
      | [] => .ok ()
      | t' :: _ =>
        if t.unixLeapTime ≥ t'.unixLeapTime then .error (.timeZone .invalidTransition)
        else checkTransitions nTypes rest

/-- second loop of `check_inputs` (spacing and ±1 steps between successive leap records) -/
def checkLeapPairs : List LeapSecond → Except TzError Unit
  | [] => .ok ()
  | [_] => .ok ()
  | x0 :: x1 :: rest =>
    let dt := satSubI64 x1.unixLeapTime x0.unixLeapTime
    let dc := satAbsI32 (satSubI32 x1.correction x0.correction)
    if !(dt ≥ SECONDS_PER_28_DAYS - guardLeapMinIntervalSlack && dc == 1) then .error (.timeZone .invalidLeapSecond)
    else checkLeapPairs (x1 :: rest)

-- src/timezone/mod.rs `TimeZoneRef::unix_time_to_unix_leap_time` (after the `fix:` commit)
def leapLoop (unixTime : Int) : List LeapSecond → Int → Except TzError Int
  | [], est => .ok est
  | l :: rest, est =>
    if est < l.unixLeapTime then .ok est
    else
      let corrected := unixTime + l.correction
      if ¬ (i64Min ≤ corrected ∧ corrected ≤ i64Max) then .error .outOfRange
      else if corrected < l.unixLeapTime then .ok est
      else leapLoop unixTime rest corrected

def unixTimeToUnixLeapTime (leaps : List LeapSecond) (unixTime : Int) : Except TzError Int :=
  leapLoop unixTime leaps unixTime

/-- the function as it was before the `fix:` commit (F3); kept for the proved counterexample -/
def leapLoopLegacy (unixTime : Int) : List LeapSecond → Int → Except TzError Int
  | [], est => .ok est
  | l :: rest, est =>
    if est < l.unixLeapTime then .ok est
    else
      let corrected := unixTime + l.correction
      if ¬ (i64Min ≤ corrected ∧ corrected ≤ i64Max) then .error .outOfRange
      else leapLoopLegacy unixTime rest corrected

def unixTimeToUnixLeapTimeLegacy (leaps : List LeapSecond) (unixTime : Int) : Except TzError Int :=
  leapLoopLegacy unixTime leaps unixTime

-- src/timezone/mod.rs `TimeZoneRef::unix_leap_time_to_unix_time`
def unixLeapTimeToUnixTime (leaps : List LeapSecond) (unixLeapTime : Int) : Except TzError Int :=
  if unixLeapTime = i64Min then .error .outOfRange else
  let index := (binarySearch (leaps.map (·.unixLeapTime)) (unixLeapTime - 1)).upper
  let correction := if index > 0 then (leaps.getD (index - 1) default).correction else 0
  let r := unixLeapTime - correction
  if i64Min ≤ r ∧ r ≤ i64Max then .ok r else .error .outOfRange

-- src/timezone/mod.rs `TimeZoneRef::check_inputs`
def TimeZone.checkInputs (z : TimeZone) : Except TzError Unit :=
  if z.localTimeTypes.length = 0 then .error (.timeZone .noLocalTimeType) else
  match checkTransitions z.localTimeTypes.length z.transitions with
  | .error e => .error e
  | .ok () =>
    let firstOk : Bool := match z.leapSeconds with
      | [] => true
      | l :: _ => l.unixLeapTime ≥ 0 && satAbsI32 l.correction == 1
    if !firstOk then .error (.timeZone .invalidLeapSecond) else
    match checkLeapPairs z.leapSeconds with
    | .error e => .error e
    | .ok () =>
      match z.extraRule, z.transitions.getLast? with
      | some rule, some last =>
        let lastType := z.localTimeTypes.getD last.localTimeTypeIndex default
        match unixLeapTimeToUnixTime z.leapSeconds last.unixLeapTime with
        | .error e => .error e
        | .ok ut =>
          match rule.findLocalTimeType ut with
          | .error e => .error e
          | .ok rt => if !(lastType.equal rt) then .error (.timeZone .inconsistentExtraRule) else .ok ()
      | _, _ => .ok ()

-- src/timezone/mod.rs `TimeZoneRef::new` / `TimeZone::new` (one function: both call `check_inputs`)
def TimeZone.new (transitions : List Transition) (types : List LocalTimeType) (leaps : List LeapSecond)
    (rule : Option TransitionRule) : Except TzError TimeZone :=
  let z : TimeZone := { transitions, localTimeTypes := types, leapSeconds := leaps, extraRule := rule }
  match z.checkInputs with
  | .error e => .error e
  | .ok () => .ok z

-- src/timezone/mod.rs `TimeZoneRef::find_local_time_type`
def TimeZone.findLocalTimeType (z : TimeZone) (unixTime : Int) : Except TzError LocalTimeType :=
  match z.transitions.getLast? with
  | none =>
    match z.extraRule with
    | some rule => rule.findLocalTimeType unixTime
    | none => .ok (z.localTimeTypes.getD 0 default)
  | some last =>
    match unixTimeToUnixLeapTime z.leapSeconds unixTime with
    | .error e => .error e
    | .ok ult =>
      if ult ≥ last.unixLeapTime then
        match z.extraRule with
        | some rule => rule.findLocalTimeType unixTime
        | none => .error .noAvailableLocalTimeType
      else
        let index := (binarySearch (z.transitions.map (·.unixLeapTime)) ult).upper
        let ti := if index > 0 then (z.transitions.getD (index - 1) default).localTimeTypeIndex else 0
        .ok (z.localTimeTypes.getD ti default)

-- src/datetime/mod.rs `DateTime::from_timespec`
def DateTime.fromTimespec (unixTime nanoseconds : Int) (z : TimeZone) : Except TzError DateTime :=
  match z.findLocalTimeType unixTime with
  | .error e => .error e
  | .ok ltt => DateTime.fromTimespecAndLocal unixTime nanoseconds ltt

-- src/datetime/mod.rs `DateTime::from_total_nanoseconds_and_local`
def DateTime.fromTotalNanosecondsAndLocal (total : Int) (ltt : LocalTimeType) : Except TzError DateTime :=
  match totalNanosecondsToTimespec total with
  | .ok (s, ns) => DateTime.fromTimespecAndLocal s ns ltt
  | .error e => .error e

-- src/datetime/mod.rs `DateTime::from_total_nanoseconds`
def DateTime.fromTotalNanoseconds (total : Int) (z : TimeZone) : Except TzError DateTime :=
  match totalNanosecondsToTimespec total with
  | .ok (s, ns) => DateTime.fromTimespec s ns z
  | .error e => .error e

-- src/datetime/mod.rs `impl PartialEq for DateTime`, `impl PartialOrd for DateTime`: (unix_time, nanoseconds) only
def DateTime.beq (a b : DateTime) : Bool := a.unixTime == b.unixTime && a.nanoseconds == b.nanoseconds

/-- `partial_cmp` as -1 / 0 / 1 (lexicographic on (unix_time, nanoseconds)) -/
def DateTime.cmp (a b : DateTime) : Int :=
  if a.unixTime < b.unixTime then -1 else if a.unixTime > b.unixTime then 1
  else if a.nanoseconds < b.nanoseconds then -1 else if a.nanoseconds > b.nanoseconds then 1 else 0

-- src/datetime/mod.rs `DateTime::project`, `UtcDateTime::project`
def DateTime.project (d : DateTime) (z : TimeZone) : Except TzError DateTime :=
  DateTime.fromTimespec d.unixTime d.nanoseconds z

def UtcDateTime.project (c : UtcDateTime) (z : TimeZone) : Except TzError DateTime :=
  DateTime.fromTimespec c.unixTime c.nanoseconds z

end TzVerif.Model
