/-
Prelude of the Rust → Lean translation, part 3: effects through an injected function (`TimeZoneSettings`).

MODELLED (DESIGN trusted base): `read_file_fn: fn(&str) -> Result<Vec<u8>, Box<dyn Error + Send + Sync>>` is a function of
the path for the duration of one call of `parse_posix_tz`; the boxed error carries nothing the crate looks at (`Unit`).
Every call of it is an effect: functions marked `io` in tools/rs2lean.py take the log of the paths requested so far and
return it next to their value, at every exit (so a failed read is still on the log).
-/
import TzVerif.SrcPrelude
import TzVerif.SrcPreludeStr

namespace TzVerif.Src

/-- the paths handed to the injected function so far, in order -/
abbrev IoLog := List (List Nat)

structure TimeZoneSettings where
  directories : List (List Nat)
  readFileFn : List Nat → Except Unit (List Nat)

/-- calling the injected function: its answer, and the request is on the log -/
def call_io (f : List Nat → Except Unit (List Nat)) (path : List Nat) (io : IoLog) : Except Unit (List Nat) × IoLog :=
  (f path, io ++ [path])

/-- `Iterator::find_map` with a closure that has effects: stops at the first `Some` -/
def find_map_io {α β : Type} (f : α → IoLog → Option β × IoLog) : List α → IoLog → Option β × IoLog
  | [], io => (none, io)
  | a :: rest, io =>
    match f a io with
    | (some b, io) => (some b, io)
    | (none, io) => find_map_io f rest io

/-- `Result::ok` -/
def res_ok {ε α : Type} : Except ε α → Option α
  | .ok a => some a
  | .error _ => none

/-- `Result::map_err` -/
def res_map_err {ε ε' α : Type} (f : ε → ε') : Except ε α → Except ε' α
  | .ok a => .ok a
  | .error e => .error (f e)

/-- `Option::ok_or_else(|| e)` for a closure without effects -/
def ok_or_else {ε α : Type} (o : Option α) (e : ε) : Except ε α :=
  match o with
  | some a => .ok a
  | none => .error e

/-- `Chars::next` on the UTF-8 bytes of a `&str`: the first scalar value (as a number) and the rest. The length of the first
sequence is read off its leading byte; on well-formed UTF-8 (the invariant of `&str`) this is the decoding of
Unicode Table 3-6. -/
def str_chars_next (s : List Nat) : Option Nat × List Nat :=
  match s with
  | [] => (none, [])
  | b0 :: rest =>
    if b0 < 0x80 then (some b0, rest)
    else if b0 < 0xE0 then
      (some ((b0 - 0xC0) * 64 + (rest.headD 0x80 - 0x80)), rest.drop 1)
    else if b0 < 0xF0 then
      (some ((b0 - 0xE0) * 4096 + (rest.headD 0x80 - 0x80) * 64 + ((rest.drop 1).headD 0x80 - 0x80)), rest.drop 2)
    else
      (some ((b0 - 0xF0) * 262144 + (rest.headD 0x80 - 0x80) * 4096 + ((rest.drop 1).headD 0x80 - 0x80) * 64
        + ((rest.drop 2).headD 0x80 - 0x80)), rest.drop 3)

end TzVerif.Src
